//! Association-list model of `std::collections::{HashMap, HashSet}` used ONLY in the
//! scratch copy that /verif/vcheck builds for `model_map` harness groups.
//!
//! Contract modelled: a map from keys to values with at most one entry per key and
//! an UNSPECIFIED iteration order. Here iteration order = insertion order (removal
//! keeps the relative order of the rest), so a harness that needs "every iteration
//! order" builds the same map with different insertion orders.
//! std's HashMap cannot be executed by CBMC on this code base (DESIGN.md E3).
#![allow(dead_code)]

use std::borrow::Borrow;

#[derive(Clone, Debug)]
pub struct HashMap<K, V> {
    e: Vec<(K, V)>,
}

impl<K, V> Default for HashMap<K, V> {
    fn default() -> Self {
        HashMap { e: Vec::new() }
    }
}

impl<K: Eq, V> HashMap<K, V> {
    pub fn new() -> Self {
        HashMap { e: Vec::new() }
    }
    pub fn with_capacity(n: usize) -> Self {
        HashMap { e: Vec::with_capacity(n) }
    }
    fn pos<Q: ?Sized + Eq>(&self, k: &Q) -> Option<usize>
    where
        K: Borrow<Q>,
    {
        let mut i = 0;
        while i < self.e.len() {
            if self.e[i].0.borrow() == k {
                return Some(i);
            }
            i += 1;
        }
        None
    }
    pub fn insert(&mut self, k: K, v: V) -> Option<V> {
        match self.pos(&k) {
            Some(i) => Some(std::mem::replace(&mut self.e[i].1, v)),
            None => {
                self.e.push((k, v));
                None
            }
        }
    }
    pub fn get<Q: ?Sized + Eq>(&self, k: &Q) -> Option<&V>
    where
        K: Borrow<Q>,
    {
        match self.pos(k) {
            Some(i) => Some(&self.e[i].1),
            None => None,
        }
    }
    pub fn get_mut<Q: ?Sized + Eq>(&mut self, k: &Q) -> Option<&mut V>
    where
        K: Borrow<Q>,
    {
        match self.pos(k) {
            Some(i) => Some(&mut self.e[i].1),
            None => None,
        }
    }
    pub fn contains_key<Q: ?Sized + Eq>(&self, k: &Q) -> bool
    where
        K: Borrow<Q>,
    {
        self.pos(k).is_some()
    }
    pub fn remove<Q: ?Sized + Eq>(&mut self, k: &Q) -> Option<V>
    where
        K: Borrow<Q>,
    {
        match self.pos(k) {
            Some(i) => Some(self.e.remove(i).1),
            None => None,
        }
    }
    pub fn clear(&mut self) {
        self.e.clear()
    }
    pub fn len(&self) -> usize {
        self.e.len()
    }
    pub fn is_empty(&self) -> bool {
        self.e.is_empty()
    }
    pub fn iter(&self) -> Iter<'_, K, V> {
        Iter { s: &self.e, i: 0 }
    }
    pub fn iter_mut(&mut self) -> IterMut<'_, K, V> {
        IterMut { it: self.e.iter_mut() }
    }
    pub fn keys(&self) -> Keys<'_, K, V> {
        Keys { s: &self.e, i: 0 }
    }
    pub fn values(&self) -> Values<'_, K, V> {
        Values { s: &self.e, i: 0 }
    }
    pub fn values_mut(&mut self) -> impl Iterator<Item = &mut V> {
        self.e.iter_mut().map(|kv| &mut kv.1)
    }
}

pub struct Iter<'a, K, V> {
    s: &'a [(K, V)],
    i: usize,
}
impl<'a, K, V> Iterator for Iter<'a, K, V> {
    type Item = (&'a K, &'a V);
    fn next(&mut self) -> Option<Self::Item> {
        if self.i < self.s.len() {
            let kv = &self.s[self.i];
            self.i += 1;
            Some((&kv.0, &kv.1))
        } else {
            None
        }
    }
    fn size_hint(&self) -> (usize, Option<usize>) {
        let n = self.s.len() - self.i;
        (n, Some(n))
    }
}
impl<'a, K, V> ExactSizeIterator for Iter<'a, K, V> {}

pub struct IterMut<'a, K, V> {
    it: std::slice::IterMut<'a, (K, V)>,
}
impl<'a, K, V> Iterator for IterMut<'a, K, V> {
    type Item = (&'a K, &'a mut V);
    fn next(&mut self) -> Option<Self::Item> {
        match self.it.next() {
            Some(kv) => Some((&kv.0, &mut kv.1)),
            None => None,
        }
    }
}

pub struct Keys<'a, K, V> {
    s: &'a [(K, V)],
    i: usize,
}
impl<'a, K, V> Iterator for Keys<'a, K, V> {
    type Item = &'a K;
    fn next(&mut self) -> Option<Self::Item> {
        if self.i < self.s.len() {
            let kv = &self.s[self.i];
            self.i += 1;
            Some(&kv.0)
        } else {
            None
        }
    }
}

pub struct Values<'a, K, V> {
    s: &'a [(K, V)],
    i: usize,
}
impl<'a, K, V> Iterator for Values<'a, K, V> {
    type Item = &'a V;
    fn next(&mut self) -> Option<Self::Item> {
        if self.i < self.s.len() {
            let kv = &self.s[self.i];
            self.i += 1;
            Some(&kv.1)
        } else {
            None
        }
    }
}

impl<'a, K: Eq, V> IntoIterator for &'a HashMap<K, V> {
    type Item = (&'a K, &'a V);
    type IntoIter = Iter<'a, K, V>;
    fn into_iter(self) -> Self::IntoIter {
        self.iter()
    }
}
impl<'a, K: Eq, V> IntoIterator for &'a mut HashMap<K, V> {
    type Item = (&'a K, &'a mut V);
    type IntoIter = IterMut<'a, K, V>;
    fn into_iter(self) -> Self::IntoIter {
        self.iter_mut()
    }
}
impl<K, V> IntoIterator for HashMap<K, V> {
    type Item = (K, V);
    type IntoIter = std::vec::IntoIter<(K, V)>;
    fn into_iter(self) -> Self::IntoIter {
        self.e.into_iter()
    }
}
impl<K: Eq, V> FromIterator<(K, V)> for HashMap<K, V> {
    fn from_iter<T: IntoIterator<Item = (K, V)>>(iter: T) -> Self {
        let mut m = HashMap::new();
        for (k, v) in iter {
            m.insert(k, v);
        }
        m
    }
}
impl<K: Eq, V> Extend<(K, V)> for HashMap<K, V> {
    fn extend<T: IntoIterator<Item = (K, V)>>(&mut self, iter: T) {
        for (k, v) in iter {
            self.insert(k, v);
        }
    }
}
impl<K: Eq, V: PartialEq> PartialEq for HashMap<K, V> {
    fn eq(&self, o: &Self) -> bool {
        if self.len() != o.len() {
            return false;
        }
        for (k, v) in self.iter() {
            match o.get(k) {
                Some(w) if w == v => {}
                _ => return false,
            }
        }
        true
    }
}
impl<K: Eq, Q: ?Sized + Eq, V> std::ops::Index<&Q> for HashMap<K, V>
where
    K: Borrow<Q>,
{
    type Output = V;
    fn index(&self, k: &Q) -> &V {
        self.get(k).expect("no entry found for key")
    }
}

#[derive(Clone, Debug)]
pub struct HashSet<T> {
    m: HashMap<T, ()>,
}
impl<T> Default for HashSet<T> {
    fn default() -> Self {
        HashSet { m: HashMap::default() }
    }
}
impl<T: Eq> HashSet<T> {
    pub fn new() -> Self {
        HashSet { m: HashMap::new() }
    }
    pub fn with_capacity(n: usize) -> Self {
        HashSet { m: HashMap::with_capacity(n) }
    }
    pub fn insert(&mut self, t: T) -> bool {
        if self.m.contains_key(&t) {
            false
        } else {
            self.m.insert(t, ());
            true
        }
    }
    pub fn contains<Q: ?Sized + Eq>(&self, t: &Q) -> bool
    where
        T: Borrow<Q>,
    {
        self.m.contains_key(t)
    }
    pub fn remove<Q: ?Sized + Eq>(&mut self, t: &Q) -> bool
    where
        T: Borrow<Q>,
    {
        self.m.remove(t).is_some()
    }
    pub fn clear(&mut self) {
        self.m.clear()
    }
    pub fn len(&self) -> usize {
        self.m.len()
    }
    pub fn is_empty(&self) -> bool {
        self.m.is_empty()
    }
    pub fn iter(&self) -> Keys<'_, T, ()> {
        self.m.keys()
    }
}
impl<'a, T: Eq> IntoIterator for &'a HashSet<T> {
    type Item = &'a T;
    type IntoIter = Keys<'a, T, ()>;
    fn into_iter(self) -> Self::IntoIter {
        self.m.keys()
    }
}
impl<T> IntoIterator for HashSet<T> {
    type Item = T;
    type IntoIter = std::iter::Map<std::vec::IntoIter<(T, ())>, fn((T, ())) -> T>;
    fn into_iter(self) -> Self::IntoIter {
        fn fst<T>(kv: (T, ())) -> T {
            kv.0
        }
        self.m.e.into_iter().map(fst as fn((T, ())) -> T)
    }
}
impl<T: Eq> FromIterator<T> for HashSet<T> {
    fn from_iter<I: IntoIterator<Item = T>>(iter: I) -> Self {
        let mut s = HashSet::new();
        for t in iter {
            s.insert(t);
        }
        s
    }
}
impl<T: Eq> Extend<T> for HashSet<T> {
    fn extend<I: IntoIterator<Item = T>>(&mut self, iter: I) {
        for t in iter {
            self.insert(t);
        }
    }
}
