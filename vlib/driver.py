"""Driver for the Kani/CBMC based checks.  See /verif/DESIGN.md section 1."""
import hashlib
import json
import os
import re
import resource
import shutil
import signal
import subprocess
import sys
import threading
import time

VERIF = os.path.dirname(os.path.dirname(os.path.abspath(__file__)))
REPO = os.environ.get("VERIF_REPO", "/repo")
HARNESS_DIR = os.path.join(VERIF, "harness")
CACHE = os.path.join(VERIF, ".cache")
KANI_HOME = os.path.expanduser("~/.kani/kani-0.68.0")
NCPU = os.cpu_count() or 4

import groups as G  # noqa: E402

CBMC_ARGS = ["--max-field-sensitivity-array-size", "1024"]


def log(*a):
    print(*a, flush=True)


# --------------------------------------------------------------------------
# scratch workspace
# --------------------------------------------------------------------------
class Inconclusive(Exception):
    pass


def copy_repo(dst):
    os.makedirs(dst, exist_ok=True)
    for name in os.listdir(REPO):
        if name in ("target", ".git"):
            continue
        s = os.path.join(REPO, name)
        d = os.path.join(dst, name)
        if os.path.isdir(s):
            shutil.copytree(s, d, symlinks=True,
                            ignore=shutil.ignore_patterns("target", ".git"))
        else:
            shutil.copy2(s, d)


def rewrite_map_imports(txt):
    """In every `use std::...;` statement drop HashMap/HashSet and import the model
    right after it (works in nested modules too); rewrite inline std paths."""
    def fix_use(m):
        stmt = m.group(0)
        names = [n for n in ("HashMap", "HashSet") if re.search(r"\b" + n + r"\b", stmt)]
        if not names or "collections" not in stmt:
            return stmt
        indent = re.match(r"\s*", stmt).group(0).split("\n")[-1]
        body = stmt

        def grp(g):
            keep = [x.strip() for x in g.group(1).split(",") if x.strip() and x.strip() not in ("HashMap", "HashSet")]
            return ("collections::{" + ", ".join(keep) + "}") if keep else "collections::{}"
        body = re.sub(r"collections::\{([^}]*)\}", grp, body)
        body = re.sub(r"\bcollections::(HashMap|HashSet)\s*,\s*", "", body)
        body = re.sub(r",\s*collections::(HashMap|HashSet)\b", "", body)
        if re.search(r"use\s+std::collections::(HashMap|HashSet)\s*;", body):
            body = indent + "#[allow(unused_imports)]\n" + indent + "use std::collections as _verif_unused_collections;"
        add = f"\n{indent}#[allow(unused_imports)]\n{indent}use crate::verif_map::{{{', '.join(names)}}};"
        return "#[allow(unused_imports)]\n" + indent + body.lstrip() + add if not body.lstrip().startswith("#[allow") else body + add
    new = re.sub(r"^[ \t]*use\s+std::[^;]*;", fix_use, txt, flags=re.M)
    new = re.sub(r"\bstd::collections::(HashMap|HashSet)\b", r"crate::verif_map::\1", new)
    return new


def install_real_map_alias(ws):
    """Plain scratch copy used to confirm model-map counterexamples: `crate::verif_map`
    exists there too, but simply re-exports std's HashMap/HashSet (harness files name it)."""
    src = os.path.join(ws, "runtime", "src")
    with open(os.path.join(src, "verif_map.rs"), "w") as f:
        f.write("//! real-map confirmation: the model's name, std's implementation\npub use std::collections::{HashMap, HashSet};\n")
    libp = os.path.join(src, "lib.rs")
    with open(libp) as f:
        lib = f.read()
    with open(libp, "w") as f:
        f.write(lib + "\n#[doc(hidden)]\npub mod verif_map;\n")


def apply_model_map(ws):
    """Replace std HashMap/HashSet by the association-list model in the scratch
    copy of the runtime crate (model_map builds only; /repo itself is untouched)."""
    src = os.path.join(ws, "runtime", "src")
    shutil.copy2(os.path.join(VERIF, "overlay", "verif_map.rs"), os.path.join(src, "verif_map.rs"))
    libp = os.path.join(src, "lib.rs")
    with open(libp) as f:
        lib = f.read()
    with open(libp, "w") as f:
        f.write(lib + "\n#[doc(hidden)]\npub mod verif_map;\n")
    n = 0
    for root, _, files in os.walk(src):
        if "verif_kani" in root:
            continue
        for fn in files:
            if not fn.endswith(".rs") or fn in ("verif_map.rs", "lib.rs"):
                continue
            p = os.path.join(root, fn)
            with open(p) as f:
                txt = f.read()
            if "HashMap" not in txt and "HashSet" not in txt:
                continue
            with open(p, "w") as f:
                f.write(rewrite_map_imports(txt))
            n += 1
    return n


def inject_group(ws, gname):
    g = G.GROUPS[gname]
    target = os.path.join(ws, g["inject"])
    if not os.path.isfile(target):
        raise Inconclusive(f"injection point {g['inject']} no longer exists")
    with open(target) as f:
        txt = f.read()
    for needle in g.get("requires", []):
        if needle not in txt:
            raise Inconclusive(f"injection point: `{needle}` not found in {g['inject']}")
    for rel, needles in g.get("requires_in", {}).items():
        fp = os.path.join(ws, rel)
        if not os.path.isfile(fp):
            raise Inconclusive(f"source guard: {rel} no longer exists")
        with open(fp) as f:
            body = norm(f.read())
        for needle in needles:
            if norm(needle) not in body:
                raise Inconclusive(f"source guard: `{needle}` not found in {rel} (the harness mirrors this line; update it)")
    hdir = os.path.join(os.path.dirname(target), "verif_kani")
    os.makedirs(hdir, exist_ok=True)
    for fn in g["files"]:
        shutil.copy2(os.path.join(HARNESS_DIR, fn), os.path.join(hdir, fn))
    modname = "verif_kani_" + gname
    txt += f'\n#[cfg(kani)]\n#[path = "verif_kani/{g["files"][0]}"]\nmod {modname};\n'
    with open(target, "w") as f:
        f.write(txt)
    return os.path.join(hdir, g["files"][0])


def harness_names(gname):
    """All harness function names a group defines (parsed from its files)."""
    g = G.GROUPS[gname]
    names = []
    for fn in g["files"]:
        with open(os.path.join(HARNESS_DIR, fn)) as f:
            src = f.read()
        # explicit: #[kani::proof] ... fn name()
        for m in re.finditer(r"#\[kani::proof\](?:\s*#\[[^\]]*\])*\s*(?:pub(?:\([a-z]+\))?\s+)?fn\s+(\w+)\s*\(", src):
            if m.group(1) != "$name":
                names.append(m.group(1))
        # macro instances: `mac!(name, ...);` at line start, for macros declared as harness makers
        for mac in g.get("instance_macros", []):
            for m in re.finditer(r"^\s*" + re.escape(mac) + r"!\(\s*(\w+)\s*[,)]", src, re.M):
                names.append(m.group(1))
    seen = set()
    out = []
    for n in names:
        if n not in seen:
            seen.add(n)
            out.append(n)
    return out


def fq(gname, h):
    g = G.GROUPS[gname]
    return f"{g['modpath']}::verif_kani_{gname}::{h}"


# --------------------------------------------------------------------------
# running kani
# --------------------------------------------------------------------------
def _limits(mem_gb):
    def f():
        os.setsid()
        lim = int(mem_gb * (1 << 30))
        resource.setrlimit(resource.RLIMIT_AS, (lim, lim))
    return f


def kani_env():
    env = dict(os.environ)
    env["CARGO_NET_OFFLINE"] = "true"
    env["CARGO_TERM_COLOR"] = "never"
    env.pop("RUSTFLAGS", None)
    return env


def seed_target(tdir, variant):
    tmpl = os.path.join(CACHE, "target-" + variant)
    if os.path.isdir(tmpl) and not os.path.exists(tdir):
        subprocess.run(["cp", "-a", tmpl, tdir], check=False)


def run_kani(ws, pkg, tdir, fq_names, jobs, timeout_s, out_json, logf, extra=None, mem_gb=12, is_bin=False):
    cmd = ["cargo", "kani", "-p", pkg, "--target-dir", tdir,
           "-Z", "stubbing", "-Z", "unstable-options",
           "--output-format", "terse", "-j", str(max(1, jobs)),
           "--harness-timeout", f"{int(timeout_s)}s",
           "--export-json", out_json, "--exact"]
    if is_bin:
        cmd += ["--bin", pkg]
    for n in fq_names:
        cmd += ["--harness", n]
    cmd += (extra or [])
    cmd += ["--cbmc-args"] + CBMC_ARGS
    t0 = time.time()
    with open(logf, "w") as lf:
        lf.write("$ " + " ".join(cmd) + "\n")
        lf.flush()
        p = subprocess.Popen(cmd, cwd=ws, env=kani_env(), stdout=lf, stderr=subprocess.STDOUT,
                             preexec_fn=_limits(mem_gb))
        # global guard: harness timeout * waves + build slack
        waves = (len(fq_names) + max(1, jobs) - 1) // max(1, jobs)
        guard = 900 + 2.5 * len(fq_names) + waves * (timeout_s + 60)
        try:
            p.wait(timeout=guard)
        except subprocess.TimeoutExpired:
            try:
                os.killpg(p.pid, signal.SIGKILL)
            except ProcessLookupError:
                pass
            p.wait()
            lf.write("\n[vcheck] global guard timeout\n")
    return time.time() - t0


IGNORED_CATEGORIES = {"NaN"}


def parse_export(out_json):
    if not os.path.isfile(out_json):
        return None
    with open(out_json) as f:
        d = json.load(f)
    res = {}
    stats = {c["harness_id"]: (c.get("cbmc_stats") or {}) for c in d.get("cbmc", [])}
    errs = {e["harness_id"]: e for e in d.get("error_details", [])}
    for r in d["verification_results"]["results"]:
        hid = r["harness_id"]
        checks = r.get("checks", [])
        fails = [c for c in checks if c["status"] == "Failure"]
        covers = [c for c in checks if c.get("category") == "cover"]
        undet = [c for c in checks if c["status"] not in ("Success", "Failure", "Unreachable", "Satisfied", "Unsatisfiable")]
        res[hid] = {
            "status": r["status"],
            "duration_s": r.get("duration_ms", 0) / 1000.0,
            "n_checks": len(checks),
            "fails": fails,
            "covers": covers,
            "undetermined": undet,
            "stats": stats.get(hid, {}),
            "error": errs.get(hid, {}),
        }
    return res


# --------------------------------------------------------------------------
# classification
# --------------------------------------------------------------------------
def classify_failure(c, gname):
    """-> ('ignore'|'bound'|'model'|'harness'|'prop', property or None)"""
    g = G.GROUPS[gname]
    desc = c.get("description", "")
    cat = c.get("category", "")
    loc = (c.get("location") or {}).get("file", "") or ""
    if cat in IGNORED_CATEGORIES:
        return ("ignore", None)
    if "unwinding assertion" in desc or cat == "unwind":
        return ("bound", None)
    if cat in ("unsupported_construct", "missing_definition"):
        return ("model", None)
    m = re.match(r'^"?(C\d\d):', desc)
    if m:
        return ("prop", m.group(1))
    if "/verif_kani/" in loc or loc.startswith(HARNESS_DIR):
        return ("harness", None)
    return ("prop", g["panic_property"])


# --------------------------------------------------------------------------
# known findings
# --------------------------------------------------------------------------
def load_known():
    p = os.path.join(VERIF, "known_findings.json")
    if not os.path.isfile(p):
        return {"findings": [], "fixed": []}
    with open(p) as f:
        return json.load(f)


def norm(s):
    return re.sub(r"\s+", " ", s or "").strip()


def match_known(known, prop, gname, harness, c):
    for k in known.get("findings", []):
        if k["property"] != prop:
            continue
        if k.get("group") != gname:
            continue
        if k.get("harness") and not re.fullmatch(k["harness"], harness):
            continue
        if norm(k.get("check")) != norm(c.get("description")):
            continue
        if k.get("function") and k["function"] != c.get("function"):
            continue
        return k
    return None


# --------------------------------------------------------------------------
# replay
# --------------------------------------------------------------------------
PLAYBACK_FLAGS = ["-Z", "unstable-options", "-Z", "trim-diagnostic-paths=no",
                  "-Z", "human_readable_cgu_names", "-Z", "always-encode-mir", "--cfg=kani",
                  "-Z", "crate-attr=feature(register_tool)", "-Z", "crate-attr=register_tool(kanitool)",
                  "--force-warn", "unstable_features",
                  "--sysroot", KANI_HOME + "/playback", "-L", KANI_HOME + "/playback/lib",
                  "--extern", "force:kani",
                  "--extern", "noprelude,nounused:std=" + KANI_HOME + "/playback/lib/libstd.rlib"]


def native_playback(ws, pkg, tdir, test_name, release, logf, is_bin=False):
    """Run a concrete-playback unit test natively (Kani's playback sysroot).
    dev: overflow-checks on (the dev profile); release: cargo --release defaults."""
    flags = list(PLAYBACK_FLAGS)
    if not release:
        flags = ["-C", "overflow-checks=on"] + flags
    env = kani_env()
    env["CARGO_ENCODED_RUSTFLAGS"] = "\x1f".join(flags)
    env["RUSTC"] = KANI_HOME + "/bin/kani-compiler"
    env["RUST_BACKTRACE"] = "1"
    cmd = [KANI_HOME + "/toolchain/bin/cargo", "test", "-p=" + pkg, "--target", "x86_64-unknown-linux-gnu",
           "--target-dir", tdir, "-Zhost-config", "-Ztarget-applies-to-host",
           '--config=host.rustflags=["--cfg=kani_host"]']
    if is_bin:
        cmd += ["--bin", pkg]
    else:
        cmd += ["--lib"]
    if release:
        cmd.append("--release")
    cmd += ["--", test_name, "--exact", "--nocapture", "--test-threads", "1"]
    # --exact needs the full path; use substring filter instead
    cmd = [c for c in cmd if c != "--exact"]
    with open(logf, "w") as lf:
        lf.write("$ " + " ".join(cmd) + "\n")
        lf.flush()
        try:
            p = subprocess.run(cmd, cwd=ws, env=env, stdout=lf, stderr=subprocess.STDOUT, timeout=1500)
            rc = p.returncode
        except subprocess.TimeoutExpired:
            rc = -9
    with open(logf) as f:
        out = f.read()
    m = re.search(r"test result: (\w+)\. (\d+) passed; (\d+) failed", out)
    if not m:
        return ("error", out)
    if int(m.group(2)) + int(m.group(3)) == 0:
        return ("error", out)
    return ("failed" if int(m.group(3)) > 0 else "passed", out)


def extract_site(out, ws):
    """First backtrace frame inside the repository sources (not harness, not std)."""
    frames = re.findall(r"\n\s+\d+: ([^\n]+)\n\s+at ([^\n]+)", out)
    for fn, at in frames:
        at = at.strip()
        if "verif_kani" in at or "/rustlib/" in at or "/library/" in at or ".cargo/registry" in at or "/kani/" in at:
            continue
        m = re.match(r"(\./|/)(.*?):(\d+):\d+$", at)
        if not m:
            continue
        path = at.rsplit(":", 2)[0]
        line = int(at.rsplit(":", 2)[1])
        text = ""
        for base in (ws, os.path.join(ws, "runtime"), os.path.join(ws, "rinklecate"), os.path.join(ws, "compiler")):
            cand = os.path.normpath(os.path.join(base, path)) if not os.path.isabs(path) else path
            if os.path.isfile(cand):
                try:
                    with open(cand) as f:
                        text = f.read().split("\n")[line - 1].strip()
                except Exception:
                    pass
                break
        return {"function": fn.strip(), "at": at.replace(ws + "/", ""), "line_text": text}
    return None


def get_playback_tests(ws, pkg, tdir, fqname, timeout_s, logf, is_bin=False):
    cmd = ["cargo", "kani", "-p", pkg, "--target-dir", tdir, "-Z", "stubbing", "-Z", "unstable-options",
           "-Z", "concrete-playback", "--concrete-playback=print", "--exact", "--harness", fqname,
           "--harness-timeout", f"{int(timeout_s)}s"]
    if is_bin:
        cmd += ["--bin", pkg]
    cmd += ["--cbmc-args"] + CBMC_ARGS
    with open(logf, "w") as lf:
        lf.write("$ " + " ".join(cmd) + "\n")
        lf.flush()
        try:
            subprocess.run(cmd, cwd=ws, env=kani_env(), stdout=lf, stderr=subprocess.STDOUT,
                           timeout=timeout_s + 900, preexec_fn=_limits(24))
        except subprocess.TimeoutExpired:
            return []
    with open(logf) as f:
        out = f.read()
    tests = []
    for m in re.finditer(r"```\n(.*?)```", out, re.S):
        body = m.group(1)
        mm = re.search(r"/// Check for `([^`]*)`: (.*)\n", body)
        nm = re.search(r"fn (kani_concrete_playback_\w+)\(", body)
        if mm and nm:
            desc = mm.group(2).strip()
            tests.append({"category": mm.group(1), "description": desc, "name": nm.group(1), "code": body})
    return tests


def values_from_test(code):
    return [l.strip()[3:] for l in code.split("\n") if l.strip().startswith("// ")]


# --------------------------------------------------------------------------
# one build = one scratch workspace + one cargo kani run
# --------------------------------------------------------------------------
class Build:
    def __init__(self, prop, variant, gnames, scratch_root, hunt=False):
        self.prop = prop
        self.variant = variant  # 'plain' | 'map' | 'cli'
        self.hunt = hunt        # bug-hunting build: short timeout, a timeout is "no claim", not inconclusive
        self.gnames = gnames
        self.root = os.path.join(scratch_root, variant + ("-hunt" if hunt else ""))
        self.ws = os.path.join(self.root, "ws")
        self.tdir = os.path.join(self.root, "target")
        self.harness_files = {}
        self.results = {}
        self.wall = 0.0
        g0 = G.GROUPS[gnames[0]]
        self.pkg = g0["pkg"]
        self.is_bin = g0.get("is_bin", False)

    def prepare(self):
        copy_repo(self.ws)
        if self.variant == "map":
            apply_model_map(self.ws)
        for gn in self.gnames:
            self.harness_files[gn] = inject_group(self.ws, gn)
        seed_target(self.tdir, "map" if self.variant == "map" else self.variant)

    def run(self, selected, jobs, timeout_s, mem_gb):
        """selected: {gname: [harness names]}"""
        fqn = []
        self.index = {}
        for gn, hs in selected.items():
            for h in hs:
                n = fq(gn, h)
                fqn.append(n)
                self.index[n] = (gn, h)
        if not fqn:
            return
        # kani-driver keeps every check record of every harness in memory for --export-json
        # (17 k records per harness here): more than ~60 harnesses per invocation exhausts it.
        CHUNK = 48
        self.results = {}
        self.wall = 0.0
        self.run_no = 0

        def run_part(part):
            self.run_no += 1
            out_json = os.path.join(self.root, f"export-{self.run_no}.json")
            logf = os.path.join(self.root, "kani.log" if self.run_no == 1 else f"kani-{self.run_no}.log")
            self.wall += run_kani(self.ws, self.pkg, self.tdir, part, jobs, timeout_s, out_json, logf,
                                  mem_gb=mem_gb, is_bin=self.is_bin)
            res = parse_export(out_json)
            if res is None:
                with open(logf) as f:
                    txt = f.read()
                if "error: could not compile" in txt or "error[E" in txt or len(part) == 1:
                    if len(part) == 1 and "Checking harness" in txt:
                        # kani-driver itself died on this harness (it panics on the output of an
                        # out-of-memory CBMC): no verdict for it, the others are unaffected
                        self.results[part[0]] = {"status": "Failure", "duration_s": 0.0, "n_checks": 0, "fails": [], "covers": [],
                                                 "undetermined": [], "stats": {}, "error": {"exit_status": "kani-driver crashed (CBMC out of memory)"}}
                        return
                    raise Inconclusive(f"kani produced no result file for build '{self.variant}' (compile error or crash):\n{txt[-4000:]}")
                # one harness took kani-driver down: bisect so that the others still get a verdict
                mid = len(part) // 2
                run_part(part[:mid])
                run_part(part[mid:])
                return
            self.results.update(res)
            # per-harness goto binaries of this chunk are no longer needed (17 MB each)
            for dirpath, dirs, files in os.walk(os.path.join(self.tdir, "kani")):
                for fn in files:
                    if fn.endswith((".out", ".symtab.out", ".pretty_name_map.json", ".type_map.json")) and "verif_kani" in fn:
                        try:
                            os.remove(os.path.join(dirpath, fn))
                        except OSError:
                            pass
            try:
                os.remove(out_json)
            except OSError:
                pass

        for ci in range(0, len(fqn), CHUNK):
            run_part(fqn[ci:ci + CHUNK])
        missing = [n for n in fqn if n not in self.results]
        if missing:
            raise Inconclusive(f"kani did not report {len(missing)} requested harness(es), e.g. {missing[0]}")

    def clean_artifacts(self):
        shutil.rmtree(self.root, ignore_errors=True)


# --------------------------------------------------------------------------
# main check
# --------------------------------------------------------------------------
def select_harnesses(prop, tier, seed, only=None):
    P = G.PROPS[prop]
    sel = {}
    for gn, selector in P["groups"].items():
        names = harness_names(gn)
        chosen = selector(tier, seed, names)
        if only:
            chosen = [n for n in chosen if only in n]
        sel[gn] = chosen
    return sel


def variant_of(gn):
    g = G.GROUPS[gn]
    if g.get("model_map"):
        return "map"
    if g["pkg"] == "rinklecate":
        return "cli"
    return "plain"


def check_property(prop, tier, seed, only=None, keep=False):
    t0 = time.time()
    P = G.PROPS[prop]
    sel = select_harnesses(prop, tier, seed, only)
    total = sum(len(v) for v in sel.values())
    log(f"[vcheck] property={prop} tier={tier} seed={seed}: {total} harnesses in groups {list(sel)}")
    if total == 0:
        log("INCONCLUSIVE: no harness selected")
        return 2
    scratch_root = f"/tmp/verif-{prop}-{os.getpid()}"
    shutil.rmtree(scratch_root, ignore_errors=True)
    os.makedirs(scratch_root)
    known = load_known()
    timeout_s = P.get("timeout", {}).get(tier, 600 if tier == "quick" else 1500)
    mem_gb = P.get("mem_gb", 16)

    # harnesses named hunt_* are bug-hunting only (DESIGN 1.8): own build, short timeout
    by_variant = {}
    for gn, hs in sel.items():
        prove = [h for h in hs if not h.startswith("hunt_")]
        hunt = [h for h in hs if h.startswith("hunt_")]
        if prove:
            by_variant.setdefault((variant_of(gn), False), {})[gn] = prove
        if hunt:
            by_variant.setdefault((variant_of(gn), True), {})[gn] = hunt
    builds = []
    inconclusive = []
    violations = []
    known_hits = []
    other_prop = []
    harness_records = []
    exit_code = 0
    try:
        for (variant, hunt), gsel in by_variant.items():
            b = Build(prop, variant, list(gsel), scratch_root, hunt=hunt)
            b.sel = gsel
            builds.append(b)
        # prepare sequentially (cheap), run in parallel with a split of the cores
        for b in builds:
            b.prepare()
        def cost(b):
            return sum(len(h) * G.GROUPS[gn].get("weight", 1) for gn, h in b.sel.items())
        tot = sum(cost(b) for b in builds) or 1
        threads = []
        errors = []

        def runb(b, jobs):
            try:
                b.run(b.sel, jobs, HUNT_TIMEOUT_S if b.hunt else timeout_s, mem_gb)
            except Inconclusive as e:
                errors.append(str(e))
            except Exception as e:  # noqa
                errors.append(f"driver error in build {b.variant}: {e!r}")

        for b in builds:
            n = sum(len(h) for h in b.sel.values())
            jobs = max(1, min(n, round(NCPU * cost(b) / tot)))
            # list harnesses under the map model need 2-9 GB each: never more than 10 at a time (62 GB machine)
            if any(G.GROUPS[gn].get("weight", 1) >= 4 for gn in b.sel):
                jobs = min(jobs, 10)
            th = threading.Thread(target=runb, args=(b, jobs))
            th.start()
            threads.append(th)
        for th in threads:
            th.join()
        inconclusive += errors

        # ---- evaluate -----------------------------------------------------
        to_replay = []  # (build, gname, harness, fqname, [checks])
        for b in builds:
            for fqname, r in b.results.items():
                gn, h = b.index[fqname]
                rec = {"harness": h, "group": gn, "status": r["status"], "duration_s": round(r["duration_s"], 2),
                       "checks": r["n_checks"], "vccs": r["stats"].get("vccs_generated"),
                       "vccs_remaining": r["stats"].get("vccs_remaining"),
                       "program_steps": r["stats"].get("size_program_expression"),
                       "solver_s": r["stats"].get("runtime_solver_s"),
                       "symex_s": r["stats"].get("runtime_symex_s"),
                       "role": G.describe(gn, h)}
                covers_sat = [c["description"] for c in r["covers"] if c["status"] == "Satisfied"]
                covers_unsat = [c["description"] for c in r["covers"] if c["status"] != "Satisfied"]
                rec["covers_satisfied"] = covers_sat
                rec["covers_unsatisfied"] = covers_unsat
                es = (r.get("error") or {}).get("exit_status")
                if r["n_checks"] == 0:
                    why = es or (r.get("error") or {}).get("error_type") or "no result"
                    if b.hunt:
                        rec["verdict"] = f"hunt:no-counterexample-within-{HUNT_TIMEOUT_S}s (no claim)"
                    else:
                        inconclusive.append(f"{h}: no verdict ({why}; timeout/OOM/CBMC error)")
                        rec["verdict"] = "inconclusive:" + str(why)
                    harness_records.append(rec)
                    continue
                if r["undetermined"]:
                    inconclusive.append(f"{h}: {len(r['undetermined'])} undetermined checks")
                mine = []
                verdict = "held"
                for c in r["fails"]:
                    kind, p = classify_failure(c, gn)
                    if kind == "ignore":
                        continue
                    if kind == "bound":
                        inconclusive.append(f"{h}: unwinding bound too small ({c.get('function')})")
                        verdict = "inconclusive:bound"
                    elif kind == "model":
                        inconclusive.append(f"{h}: unsupported construct reached: {c.get('description')}")
                        verdict = "inconclusive:model"
                    elif kind == "harness":
                        inconclusive.append(f"{h}: failure inside harness code (harness bug): {c.get('description')} at {c.get('location')}")
                        verdict = "inconclusive:harness"
                    elif p == prop:
                        mine.append(c)
                    else:
                        other_prop.append({"harness": h, "property": p, "check": c.get("description")})
                # vacuity: covers. A failed check is reachable by definition, so vacuity only
                # invalidates a "held" verdict (Kani cuts paths after a failed assert, which can
                # make later covers unreachable).
                must = [d for d in covers_unsat if d.startswith("must:")]
                if not mine and verdict == "held":
                    if must:
                        inconclusive.append(f"{h}: required cover(s) not satisfied (vacuous?): {must}")
                        verdict = "inconclusive:vacuous"
                    if r["covers"] and not covers_sat:
                        inconclusive.append(f"{h}: no cover satisfied (harness vacuous)")
                        verdict = "inconclusive:vacuous"
                if mine and verdict.startswith("inconclusive"):
                    mine = []
                if mine:
                    unknown = []
                    for c in mine:
                        k = match_known(known, prop, gn, h, c)
                        if k:
                            known_hits.append((k, h, c))
                        else:
                            unknown.append(c)
                    if unknown:
                        to_replay.append((b, gn, h, fqname, unknown))
                        verdict = "counterexample"
                    else:
                        verdict = "known-finding"
                rec["verdict"] = verdict
                rec["failed_checks"] = [{"description": c.get("description"), "function": c.get("function")} for c in mine]
                harness_records.append(rec)

        # ---- replay unknown counterexamples (batched per build) ------------
        by_build = {}
        for (b, gn, h, fqname, checks) in to_replay:
            by_build.setdefault(id(b), (b, []))[1].append((gn, h, fqname, checks))
        n_budget = 8
        for (_, (b, items)) in by_build.items():
            for r in replay_batch(b, items, timeout_s, budget=n_budget):
                if r["reproduced"]:
                    violations.append(r)
                else:
                    inconclusive.append(f"{r['harness']}: counterexample did not reproduce natively ({r.get('why')}); trace kept at {r.get('kept')}")
            if len(items) > n_budget:
                log(f"[vcheck] {len(items) - n_budget} further counterexample(s) in build '{b.variant}' not replayed (replay budget {n_budget})")
                if not violations:
                    inconclusive.append("more counterexamples than the replay budget; none of the replayed ones reproduced")
    except Inconclusive as e:
        inconclusive.append(str(e))
    finally:
        if not keep:
            shutil.rmtree(scratch_root, ignore_errors=True)
        else:
            log(f"[vcheck] scratch kept at {scratch_root}")

    # ---- report ------------------------------------------------------------
    seen = set()
    for (k, h, c) in known_hits:
        key = k["id"]
        if key in seen:
            continue
        seen.add(key)
        log(f"KNOWN-FINDING: property={prop} {k['what']} [id={k['id']}]")
    for v in violations:
        log(f"VIOLATION property={prop} replay={v['path']}")
        log(f"  harness={v['harness']} check={v['check']} site={v.get('site')} values={v.get('values')} dev={v['dev']} release={v['release']}")
    for m in inconclusive:
        log(f"INCONCLUSIVE: {m}")
    if violations:
        exit_code = 1
    elif inconclusive:
        exit_code = 2
    wall = time.time() - t0
    write_evidence(prop, tier, seed, harness_records, violations, known_hits, inconclusive, other_prop, wall, builds)
    held = sum(1 for r in harness_records if r.get("verdict") == "held")
    log(f"[vcheck] {prop}: {len(harness_records)} harnesses, {held} held, {len(seen)} known findings, "
        f"{len(violations)} violations, {len(inconclusive)} inconclusive, {wall:.0f}s -> exit {exit_code}")
    return exit_code


def run_native_tests(ws, pkg, tdir, release, logf, is_bin=False, filt="kani_concrete_playback_"):
    """Run all injected playback tests natively once; -> ({test_name: 'failed'|'passed'}, {test_name: output chunk}, raw)"""
    st, out = native_playback(ws, pkg, tdir, filt, release, logf, is_bin)
    res, chunks = {}, {}
    # with --test-threads 1 --nocapture each test's output sits between its "test <name> ..." line and the next one
    parts = re.split(r"(?m)^test (\S+) \.\.\. ", out)
    # parts = [pre, name1, chunk1, name2, chunk2, ...]
    for k in range(1, len(parts) - 1, 2):
        name = parts[k].split("::")[-1]
        chunk = parts[k + 1]
        m = re.search(r"\b(ok|FAILED)\b\s*$", chunk.split("\ntest ")[0].strip().split("\n")[-1]) or re.search(r"(?m)^(ok|FAILED)$", chunk) \
            or re.search(r"\b(ok|FAILED)\b", chunk)
        if m:
            res[name] = "failed" if m.group(1) == "FAILED" else "passed"
            chunks[name] = chunk
    # authoritative list of failures
    fm = re.search(r"\nfailures:\n((?:    \S+\n)+)", out)
    if fm:
        for l in fm.group(1).strip().split("\n"):
            res[l.strip().split("::")[-1]] = "failed"
    return res, chunks, out, st


def replay_batch(b, items, timeout_s, budget=8):
    """items: [(gn, h, fqname, [failed checks])] of one build. Returns list of result dicts."""
    items = items[:budget]
    results = []
    gen = {}
    lock = threading.Lock()

    def gen_one(it):
        gn, h, fqname, checks = it
        rdir = os.path.join(b.root, "replay-" + h)
        os.makedirs(rdir, exist_ok=True)
        tests = get_playback_tests(b.ws, b.pkg, b.tdir, fqname, timeout_s, os.path.join(rdir, "playback-gen.log"), b.is_bin)
        with lock:
            gen[h] = tests

    ths = []
    sem = threading.Semaphore(4)

    def worker(it):
        with sem:
            gen_one(it)
    for it in items:
        t = threading.Thread(target=worker, args=(it,))
        t.start()
        ths.append(t)
    for t in ths:
        t.join()

    chosen = {}
    originals = {}
    for (gn, h, fqname, checks) in items:
        want = {norm(c.get("description")).strip('"') for c in checks}
        cs = [t for t in gen.get(h, []) if norm(t["description"]).strip('"') in want]
        if not cs and gen.get(h) and all(not values_from_test(t["code"]) for t in gen[h]):
            # harness without symbolic input: every generated test replays the same deterministic run
            cs = [dict(gen[h][0], description=sorted(want)[0])]
        if not cs and gen.get(h):
            # Kani sometimes prints tests only for the covers. Their inputs are still inputs of this
            # harness: inject them all and keep the one that natively fails with the failed check's message.
            cs = [{"alts": gen[h], "want": sorted(want), "description": sorted(want)[0], "name": None, "code": ""}]
        if not cs:
            results.append({"reproduced": False, "why": "kani produced no concrete test for the failed check",
                            "kept": keep_trace(b, h, os.path.join(b.root, "replay-" + h)), "harness": h, "group": gn})
            continue
        chosen[h] = (gn, cs[0])
    if not chosen:
        return results
    # inject all tests
    for h, (gn, t) in chosen.items():
        hf = b.harness_files[gn]
        if hf not in originals:
            with open(hf) as f:
                originals[hf] = f.read()
        with open(hf, "a") as f:
            for tt in (t.get("alts") or [t]):
                f.write("\n" + tt["code"] + "\n")
    ptd = os.path.join(b.root, "target-playback")
    seed_target(ptd, "playback-cli" if b.variant == "cli" else "playback")
    dev, devc, dev_raw, dev_st = run_native_tests(b.ws, b.pkg, ptd, False, os.path.join(b.root, "native-dev.log"), b.is_bin)
    rel, relc, rel_raw, rel_st = run_native_tests(b.ws, b.pkg, ptd, True, os.path.join(b.root, "native-release.log"), b.is_bin)
    real = {}
    if b.variant == "map":
        real = confirm_on_real_map(b, chosen)
    for hf, src in originals.items():
        with open(hf, "w") as f:
            f.write(src)
    for h, (gn, t) in list(chosen.items()):
        if t.get("alts"):
            pick = None
            for tt in t["alts"]:
                out_txt = devc.get(tt["name"], "") + relc.get(tt["name"], "")
                if (dev.get(tt["name"]) == "failed" or rel.get(tt["name"]) == "failed") and \
                        any(w.strip('"') in norm(out_txt) for w in t["want"]):
                    pick = tt
                    break
            if pick is None:
                results.append({"reproduced": False, "why": "none of kani's generated inputs fails natively with the failed check's message",
                                "kept": keep_trace(b, h, os.path.join(b.root, "replay-" + h)), "harness": h, "group": gn})
                continue
            t = dict(pick, description=t["description"])
            chosen[h] = (gn, t)
        d = dev.get(t["name"], "error")
        r = rel.get(t["name"], "error")
        chunk = devc.get(t["name"], "") if d == "failed" else relc.get(t["name"], "")
        site = extract_site("\n" + chunk, b.ws)
        reproduced = (d == "failed") or (r == "failed")
        out = {"reproduced": reproduced, "harness": h, "group": gn, "check": t["description"], "dev": d, "release": r,
               "values": values_from_test(t["code"]), "site": site}
        if b.variant == "map":
            out["real_hashmap"] = real.get(t["name"], {"runs": 0, "failed": 0})
            if reproduced and out["real_hashmap"].get("failed", 0) == 0:
                reproduced = False
                out["reproduced"] = False
                out["why"] = ("reproduces under the map model but not against the real std HashMap in "
                              f"{out['real_hashmap'].get('runs', 0)} runs")
        if reproduced:
            pdir = os.path.join(os.environ.get("VERIF_REPLAY_DIR", os.path.join(VERIF, "replays")), b.prop)
            os.makedirs(pdir, exist_ok=True)
            hid = hashlib.sha1(t["code"].encode()).hexdigest()[:10]
            path = os.path.join(pdir, f"{h}-{hid}.rs")
            meta = {"property": b.prop, "group": gn, "harness": h, "check": t["description"], "test": t["name"],
                    "values": out["values"], "site": site, "native": {"dev": d, "release": r},
                    "real_hashmap": out.get("real_hashmap"), "how": f"{VERIF}/vcheck --replay {path}"}
            with open(path, "w") as f:
                f.write("// VCHECK-REPLAY " + json.dumps(meta) + "\n" + t["code"])
            out["path"] = path
        else:
            out.setdefault("why", f"native dev={d} release={r}")
            rdir = os.path.join(b.root, "replay-" + h)
            for lf in ("native-dev.log", "native-release.log", "real-map.log"):
                try:
                    shutil.copy2(os.path.join(b.root, lf), rdir)
                except Exception:
                    pass
            out["kept"] = keep_trace(b, h, rdir)
        results.append(out)
    return results


REAL_MAP_RUNS = 48
HUNT_TIMEOUT_S = 120


def confirm_on_real_map(b, chosen):
    """Model-map counterexamples are re-run against the UNMODIFIED runtime (std HashMap, fresh
    random hash seeds per map and per process): the same playback tests, injected into a plain
    scratch copy, executed REAL_MAP_RUNS times. -> {test: {runs, failed}}"""
    root = os.path.join(b.root, "realmap")
    ws = os.path.join(root, "ws")
    copy_repo(ws)
    install_real_map_alias(ws)
    gns = sorted({gn for (gn, _) in chosen.values()})
    files = {}
    for gn in gns:
        files[gn] = inject_group(ws, gn)
    flat = []
    for h, (gn, t) in chosen.items():
        for tt in (t.get("alts") or [t]):
            flat.append(tt)
            with open(files[gn], "a") as f:
                f.write("\n" + tt["code"] + "\n")
    ptd = os.path.join(root, "target-playback")
    seed_target(ptd, "playback")
    stats = {tt["name"]: {"runs": 0, "failed": 0} for tt in flat}
    logf = os.path.join(b.root, "real-map.log")
    pending = set(stats)
    for k in range(REAL_MAP_RUNS):
        res, _, raw, st = run_native_tests(ws, b.pkg, ptd, False, logf, b.is_bin)
        if not res:
            break
        for name in list(pending):
            if name in res:
                stats[name]["runs"] += 1
                if res[name] == "failed":
                    stats[name]["failed"] += 1
        # stop early once every test has failed at least once and passed the minimum number of runs
        if all(stats[n]["failed"] > 0 for n in stats) and k >= 7:
            break
    shutil.rmtree(os.path.join(root, "target-playback"), ignore_errors=True)
    return stats


def keep_trace(b, h, rdir):
    dst = os.path.join(VERIF, "replays", "_unreproduced", f"{b.prop}-{h}")
    shutil.rmtree(dst, ignore_errors=True)
    os.makedirs(os.path.dirname(dst), exist_ok=True)
    try:
        shutil.copytree(rdir, dst)
    except Exception:
        pass
    return dst


def write_evidence(prop, tier, seed, recs, violations, known_hits, inconclusive, other_prop, wall, builds):
    P = G.PROPS[prop]
    nontrivial = [r for r in recs if r.get("verdict") in ("held", "known-finding", "counterexample")
                  and r.get("covers_satisfied") and (r.get("vccs") or 0) > 0]
    funcs = []
    bounds = {}
    stubs = []
    for gn in P["groups"]:
        g = G.GROUPS[gn]
        funcs += g["functions"]
        bounds[gn] = g["bounds"]
        stubs += g.get("stubs", [])
    samples = []
    for r in recs[:400]:
        samples.append({k: r.get(k) for k in ("harness", "group", "role", "verdict", "duration_s", "vccs", "vccs_remaining",
                                               "program_steps", "solver_s", "symex_s", "covers_satisfied", "failed_checks")})
    ev = {
        "property_id": prop,
        "tier": tier,
        "seed": seed,
        "level": "model_checking",
        "coverage": {
            "evaluations": len(recs),
            "distinct_nontrivial": len(nontrivial),
            "rule": ("one evaluation = one bounded-model-checking query (Kani harness -> CBMC -> cadical) over the compiled "
                     "code of /repo as copied at the start of this run; each harness fixes a shape (operator, operand types, "
                     "list membership, slice length bound) and leaves the scalar contents symbolic, so harnesses are pairwise "
                     "distinct by construction; one counts as non-trivial when it produced verification conditions and at "
                     "least one of its kani::cover! witnesses was satisfied (non-vacuous)"),
            "samples": samples,
            "queries_discharged": len([r for r in recs if not str(r.get("verdict", "")).startswith(("inconclusive", "hunt:"))]),
            "bug_hunting_only": [r["harness"] for r in recs if str(r.get("verdict", "")).startswith("hunt:")],
            "vccs_generated": sum((r.get("vccs") or 0) for r in recs),
            "vccs_after_slicing": sum((r.get("vccs_remaining") or 0) for r in recs),
            "program_steps": sum((r.get("program_steps") or 0) for r in recs),
            "solver_seconds": round(sum((r.get("solver_s") or 0) for r in recs), 2),
            "symex_seconds": round(sum((r.get("symex_s") or 0) for r in recs), 2),
            "cbmc_wall_seconds": round(sum((r.get("duration_s") or 0) for r in recs), 1),
            "functions_encoded": sorted(set(funcs)),
            "bounds": bounds,
            "outside_bounds": P.get("outside", ""),
            "stubs": sorted(set(stubs)),
            "known_findings_hit": sorted({k["id"] for (k, _, _) in known_hits}),
            "inconclusive": inconclusive[:50],
            "failures_attributed_to_other_properties": other_prop[:50],
            "violations": [{k: v.get(k) for k in ("harness", "check", "values", "site", "dev", "release", "path")} for v in violations],
            "traces_validated_against_impl": len([v for v in violations if v.get("reproduced")]),
            "exhaustive": False,
            "trusted_base": G.TRUSTED_BASE + (G.TRUSTED_BASE_MAP if any(G.GROUPS[g].get("model_map") for g in P["groups"]) else []),
            "engine": "kani 0.68.0 / CBMC 6.11.0 / cadical; flags: -Z stubbing --cbmc-args " + " ".join(CBMC_ARGS),
        },
        "assumptions": P.get("assumptions", []) + ["every claim is bounded: see coverage.bounds; unwinding assertions are on, a too-small bound is reported as inconclusive"],
        "wall_s": round(wall, 1),
        "violations": len(violations),
    }
    evdir = os.environ.get("VERIF_EVIDENCE_DIR", os.path.join(VERIF, "evidence"))
    os.makedirs(evdir, exist_ok=True)
    with open(os.path.join(evdir, prop + ".json"), "w") as f:
        json.dump(ev, f, indent=1)


# --------------------------------------------------------------------------
# --replay
# --------------------------------------------------------------------------
def replay_file(path):
    with open(path) as f:
        txt = f.read()
    m = re.match(r"// VCHECK-REPLAY (.*)\n", txt)
    if not m:
        log("not a vcheck replay file")
        return 2
    meta = json.loads(m.group(1))
    code = txt[m.end():]
    gn = meta["group"]
    prop = meta["property"]
    root = f"/tmp/verif-replay-{os.getpid()}"
    shutil.rmtree(root, ignore_errors=True)
    try:
        b = Build(prop, variant_of(gn), [gn], root)
        b.prepare()
        hf = b.harness_files[gn]
        with open(hf, "a") as f:
            f.write("\n" + code + "\n")
        ptd = os.path.join(root, "target-playback")
        seed_target(ptd, "playback-cli" if b.variant == "cli" else "playback")
        dev, dev_out = native_playback(b.ws, b.pkg, ptd, meta["test"], False, os.path.join(root, "dev.log"), b.is_bin)
        rel, rel_out = native_playback(b.ws, b.pkg, ptd, meta["test"], True, os.path.join(root, "rel.log"), b.is_bin)
        site = extract_site(dev_out if dev == "failed" else rel_out, b.ws)
        log(f"replay {os.path.basename(path)}: property={prop} harness={meta['harness']} check={meta['check']}")
        log(f"  values={meta['values']}")
        log(f"  native dev profile: {dev}; native release profile: {rel}; site={site}")
        if dev == "error" or rel == "error":
            log((dev_out if dev == "error" else rel_out)[-3000:])
            return 2
        if dev == "failed" or rel == "failed":
            if b.variant == "map":
                st = confirm_on_real_map(b, {meta["harness"]: (gn, {"name": meta["test"], "code": code})})
                r = st.get(meta["test"], {})
                log(f"  against the unmodified runtime (std HashMap): {r.get('failed', 0)} of {r.get('runs', 0)} native runs fail")
                if not r.get("failed"):
                    log("does not reproduce against the real HashMap")
                    return 2
            log(f"VIOLATION property={prop} replay={path}")
            return 1
        log("replay passes on the current tree (violation no longer present)")
        return 0
    except Inconclusive as e:
        log(f"INCONCLUSIVE: {e}")
        return 2
    finally:
        shutil.rmtree(root, ignore_errors=True)


# --------------------------------------------------------------------------
# --warm
# --------------------------------------------------------------------------
def warm():
    """Build dependency caches so that checks only compile the workspace crates."""
    os.makedirs(CACHE, exist_ok=True)
    rc = 0
    for variant, gn in (("plain", G.WARM_GROUPS["plain"]), ("cli", G.WARM_GROUPS["cli"])):
        if gn is None:
            continue
        root = f"/tmp/verif-warm-{variant}-{os.getpid()}"
        shutil.rmtree(root, ignore_errors=True)
        try:
            b = Build("warm", variant, [gn], root)
            b.prepare()
            names = harness_names(gn)[:1]
            out_json = os.path.join(root, "export.json")
            run_kani(b.ws, b.pkg, b.tdir, [fq(gn, names[0])], 1, 600, out_json, os.path.join(root, "kani.log"), is_bin=b.is_bin)
            if not os.path.isfile(out_json):
                with open(os.path.join(root, "kani.log")) as f:
                    log(f.read()[-3000:])
                log(f"[warm] {variant}: kani run failed")
                rc = 1
                continue
            # native playback dependencies (dev + release)
            ptd = os.path.join(root, "target-playback")
            for rel in (False, True):
                native_playback(b.ws, b.pkg, ptd, "no_such_test_just_build", rel, os.path.join(root, "pb.log"), b.is_bin)
            for dirpath, dirs, _ in os.walk(ptd):
                for d in list(dirs):
                    if re.match(r"(bladeink|rinklecate|bladeink.compiler|bladeink_compiler)", d):
                        shutil.rmtree(os.path.join(dirpath, d), ignore_errors=True)
                        dirs.remove(d)
            pdst = os.path.join(CACHE, "target-playback-cli" if variant == "cli" else "target-playback")
            shutil.rmtree(pdst, ignore_errors=True)
            shutil.move(ptd, pdst)
            # drop the workspace crates' own artifacts, keep dependencies
            for dirpath, dirs, _ in os.walk(b.tdir):
                for d in list(dirs):
                    if re.match(r"(bladeink|rinklecate|bladeink.compiler|bladeink_compiler)", d):
                        shutil.rmtree(os.path.join(dirpath, d), ignore_errors=True)
                        dirs.remove(d)
            shutil.rmtree(os.path.join(b.tdir, "kani", "debug", "incremental"), ignore_errors=True)
            dst = os.path.join(CACHE, "target-" + variant)
            shutil.rmtree(dst, ignore_errors=True)
            shutil.move(b.tdir, dst)
            log(f"[warm] {variant}: cache at {dst}")
        finally:
            shutil.rmtree(root, ignore_errors=True)
    # the map variant shares dependencies with plain
    p = os.path.join(CACHE, "target-plain")
    m = os.path.join(CACHE, "target-map")
    if os.path.isdir(p):
        shutil.rmtree(m, ignore_errors=True)
        subprocess.run(["cp", "-a", p, m], check=False)
    return rc


def main(argv):
    if not argv or argv[0] in ("-h", "--help"):
        print(__doc__ or "see vcheck")
        return 2
    if argv[0] == "--warm":
        return warm()
    if argv[0] == "--replay":
        return replay_file(argv[1])
    tier = os.environ.get("VERIF_TIER", "quick")
    only = None
    keep = False
    listing = False
    args = list(argv)
    prop = None
    while args:
        a = args.pop(0)
        if a == "--tier":
            tier = args.pop(0)
        elif a == "--only":
            only = args.pop(0)
        elif a == "--keep":
            keep = True
        elif a == "--list":
            listing = True
        else:
            prop = a
    if prop not in G.PROPS:
        log(f"unknown or unclaimed property {prop}; claimed: {sorted(G.PROPS)}")
        return 2
    if tier not in ("quick", "thorough"):
        log("tier must be quick or thorough")
        return 2
    try:
        seed = int(os.environ.get("VERIF_SEED", "0"))
    except ValueError:
        seed = 0
    if listing:
        for gn, hs in select_harnesses(prop, tier, seed, only).items():
            for h in hs:
                print(gn, h, "--", G.describe(gn, h))
        return 0
    return check_property(prop, tier, seed, only, keep)
