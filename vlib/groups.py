"""Harness groups and the property -> harness mapping."""
import re

TRUSTED_BASE = [
    "rustc + kani-compiler 0.68 MIR -> goto translation, Kani's models of alloc/core intrinsics",
    "CBMC 6.11.0 symbolic execution + cadical SAT back end",
    "stub: alloc::fmt::format -> empty String (error-message text is not the subject of any claimed kernel)",
    "std::mem::forget on harness inputs/results (drop glue of Rc<dyn RTObject> not executed)",
    "harness-side reference oracles in /verif/harness/*.rs",
]
TRUSTED_BASE_MAP = [
    "model of std::collections::HashMap/HashSet: association list /verif/overlay/verif_map.rs, installed by identifier "
    "rewrite in the scratch copy; iteration order = insertion order, harnesses build the same map in several orders",
]

SHAPES2 = ["bb", "bi", "bf", "ib", "ii", "if", "fb", "fi", "ff"]
TY = {"b": "Bool", "i": "Int", "f": "Float"}

GROUPS = {
    "native_scalar": {
        "pkg": "bladeink",
        "inject": "runtime/src/native_function_call.rs",
        "modpath": "native_function_call",
        "files": ["native_scalar.rs", "native_scalar_instances.rs"],
        "instance_macros": ["un", "bin", "narrow"],
        "requires": ["pub(crate) fn call(", "enum Op"],
        "model_map": False,
        "panic_property": "C04",
        "functions": [
            "NativeFunctionCall::call", "NativeFunctionCall::coerce_values_to_single_type",
            "NativeFunctionCall::call_type", "NativeFunctionCall::{add,subtract,multiply,divide,mod,negate,equal,not_equals,"
            "greater,less,greater_than_or_equals,less_than_or_equals,and,or,not,min,max,pow,floor,ceiling,int,float}_op",
            "Value::cast", "Value::get_cast_ordinal", "Value::new", "Value::get_value", "Value::get_bool_value",
        ],
        "bounds": ("one harness per (operator, operand type shape) with shapes over {Bool,Int,Float}; operand values fully "
                   "symbolic (all 2^32 per i32/f32 operand, both bools); loop unwind 4 (parameter vectors of length <= 2); "
                   "int '/' and '%' value oracle restricted to |x|,|y| < 2^15 (no-panic and Err-on-zero are full width); "
                   "POW and float '%' have no value oracle (libm), only type/no-panic"),
        "stubs": ["alloc::fmt::format"],
    },
    "newline": {
        "pkg": "bladeink",
        "inject": "runtime/src/story/progress.rs",
        "modpath": "story::progress",
        "files": ["newline.rs"],
        "requires": ["fn calculate_newline_output_state_change("],
        "model_map": False,
        "panic_property": "C01",
        "functions": ["Story::calculate_newline_output_state_change"],
        "bounds": ("prev/curr: ASCII byte strings of symbolic length <= N with symbolic contents, N = 3 (quick), 6 and 10 "
                   "(thorough); plus the append shape prev = p, curr = p + a with |p| <= 8, |a| <= 8; tag counts: all i32 pairs; "
                   "unwind N+2; non-ASCII text is outside the bound"),
        "roles": {
            "nl_len_le_3": "line-end decision, independent prev/curr, each <= 3 ASCII bytes, all tag counts",
            "nl_len_le_6": "line-end decision, independent prev/curr, each <= 6 ASCII bytes, all tag counts",
            "nl_len_le_10": "line-end decision, independent prev/curr, each <= 10 ASCII bytes, all tag counts",
            "nl_append_8_8": "line-end decision, curr = prev + appended text, |prev| <= 8, |appended| <= 8",
        },
    },
    "json_value": {
        "pkg": "bladeink",
        "inject": "runtime/src/json/json_read.rs",
        "modpath": "json::json_read",
        "files": ["json_value.rs"],
        "requires": ["pub fn jtoken_to_runtime_object(", "pub fn jarray_to_runtime_obj_list("],
        "model_map": True,
        "panic_property": "C15",
        "functions": ["json_write::write_rtobject", "json_read::jtoken_to_runtime_object", "json_read::jarray_to_runtime_obj_list",
                      "ControlCommand::new_from_name", "NativeFunctionCall::new_from_name", "serde_json::Number::{from,from_f64,as_i64,as_f64,is_i64}"],
        "bounds": ("scalars: every i32, both bools, every f32 bit pattern (finite and non-finite separately); loader tokens: Null, "
                   "Bool, Number built from every i64 / u64 / finite f64, String of length 0, 1, 2 with symbolic ASCII bytes, "
                   "token lists of length 0..2 with skip_last symbolic; objects ({...}) are outside (serde_json::Map = BTreeMap, E8')"),
        "stubs": ["alloc::fmt::format"],
        "roles": {
            "rt_int": "save->load of Value::Int, all i32", "rt_bool": "save->load of Value::Bool",
            "rt_float_finite": "save->load of Value::Float, all finite f32 bit patterns",
            "rt_float_nonfinite": "save->load of Value::Float, NaN and +-inf",
            "tok_null": "loader on JSON null", "tok_bool": "loader on JSON bool", "tok_i64": "loader on any i64 number",
            "tok_u64": "loader on any u64 number", "tok_f64": "loader on any finite f64 number",
            "tok_str0": "loader on the empty string token", "tok_str1": "loader on any 1-byte ASCII string token",
            "tok_str2": "loader on any 2-byte ASCII string token", "arr_list_empty": "token-list reader on [] (skip_last symbolic)",
            "arr_list_one_number": "token-list reader on [n], n any i64", "arr_list_bool_null": "token-list reader on [bool, null]",
        },
    },
    "count_flags": {
        "pkg": "bladeink", "inject": "runtime/src/container.rs", "modpath": "container", "files": ["count_flags.rs"],
        "requires": ["fn split_count_flags(", "pub fn get_count_flags("], "model_map": True, "panic_property": "C02",
        "functions": ["Container::split_count_flags", "Container::get_count_flags"],
        "bounds": "all i32 flag words; loop-free", "roles": {"count_flags_roundtrip": "container count flags read -> write -> read, all i32"},
    },
    "choice_flags": {
        "pkg": "bladeink", "inject": "runtime/src/choice_point.rs", "modpath": "choice_point", "files": ["choice_flags.rs"],
        "requires": ["pub fn get_flags("], "model_map": False, "panic_property": "C02",
        "functions": ["ChoicePoint::new", "ChoicePoint::get_flags", "Path::new_with_components_string (concrete \"0\")"],
        "bounds": "all i32 flag words; path string fixed to \"0\"", "roles": {"choice_flags_roundtrip": "choice point flags read -> write -> read, all i32"},
    },
    "pushpop": {
        "pkg": "bladeink", "inject": "runtime/src/push_pop.rs", "modpath": "push_pop", "files": ["pushpop.rs"],
        "requires": ["fn from_value("], "model_map": False, "panic_property": "C15",
        "functions": ["PushPopType::from_value"], "stubs": ["alloc::fmt::format"],
        "bounds": "all usize values", "roles": {"pushpop_roundtrip": "call-stack element type code read back, all usize"},
    },
}


def describe(gname, h):
    if gname == "native_scalar":
        m = re.match(r"ns_(.+)_([bif]{1,2})$", h)
        if m:
            return f"NativeFunctionCall::call op={m.group(1)} operands=({', '.join(TY[c] for c in m.group(2))}) values symbolic"
        m = re.match(r"nsv_(.+)_(\w+)$", h)
        if m:
            return (f"NativeFunctionCall::call op={m.group(1)} value oracle on narrow operands ({m.group(2)}: ints = sign-extended "
                    "i16, floats = k/4 with |k| < 2^11), values symbolic within that range")
    d = GROUPS[gname].get("roles", {})
    return d.get(h, h)


# ---- selectors -------------------------------------------------------------
def rot(names, seed, k):
    """seeded rotation: k names starting at an offset derived from the seed"""
    if not names:
        return []
    k = min(k, len(names))
    off = (seed * 7919) % len(names)
    return [names[(off + i) % len(names)] for i in range(k)]


def sel_c04_scalar(tier, seed, names):
    if tier == "thorough":
        return names
    # quick: every operator on the all-Int shape (where overflow / division faults live),
    # the float->int conversions, plus a seeded rotation over the remaining shapes
    core = [n for n in names if re.search(r"_(ii|i)$", n)] + [n for n in names if re.match(r"ns_(int|floor|ceiling)_f$", n)]
    rest = [n for n in names if n not in core]
    return core + rot(rest, seed, 10)


def sel_c07_scalar(tier, seed, names):
    if tier == "thorough":
        return names
    core = [n for n in names if re.search(r"_(if|fi|ff|f|bi)$", n) and not re.match(r"ns_(has|hasnt|intersect|list|all|count|value|invert)", n)]
    rest = [n for n in names if n not in core]
    return rot(core, seed, 28) + rot(rest, seed, 8)


def sel_all(tier, seed, names):
    return names


def sel_newline(tier, seed, names):
    if tier == "thorough":
        return names
    return [n for n in names if n in ("nl_len_le_3", "nl_len_le_6")]


def sel_prefix(*prefixes):
    def f(tier, seed, names):
        return [n for n in names if n.startswith(prefixes)]
    return f


PROPS = {
    "C01": {
        "groups": {"newline": sel_newline},
        "outside": ("everything else in C01: the interpreter loop, choices, visit counting, whitespace cleaning, the compiler; "
                    "a change in step/process_choice/the emitter is not detected by this check (DESIGN 3/C01)"),
        "assumptions": ["texts are ASCII (the function works on bytes; from_utf8_unchecked is sound for ASCII)"],
    },
    "C02": {
        "groups": {"json_value": sel_prefix("rt_"), "count_flags": sel_all, "choice_flags": sel_all, "pushpop": sel_all},
        "outside": ("flows, threads, call-stack pointers, choices, the variables map, lists, eval-stack order (serde_json::Map / "
                    "Story construction not encodable); the text serialisation of serde_json::Value (to_string / from_str) is trusted"),
        "assumptions": ["serde_json::Value::to_string followed by from_str is the identity on numbers and bools (library contract)"],
    },
    "C15": {
        "groups": {"json_value": sel_prefix("tok_", "arr_"), "pushpop": sel_all},
        "outside": ("every object-shaped token (obj.get(k)...unwrap() sites): serde_json::Map is a BTreeMap CBMC does not get "
                    "through; whole-document parsing, nesting depth, reset-after-failed-load, the streaming loader's structure"),
        "assumptions": ["tokens are built directly as serde_json::Value (what serde_json::from_str hands the loader)"],
    },
    "C04": {
        "groups": {"native_scalar": sel_c04_scalar},
        "outside": ("RANDOM/shuffle seed arithmetic, evaluation-stack and divert-target unwraps, assignment of non-values, "
                    "reset-after-error: all inside Story methods that Kani cannot encode (DESIGN E5-E7)"),
        "assumptions": ["operands reach NativeFunctionCall::call as Rc<Value> of the stated types (what the evaluation stack holds)"],
    },
    "C07": {
        "groups": {"native_scalar": sel_c07_scalar},
        "outside": ("string concatenation/containment and printing of values (text building), POW and float % values (libm), "
                    "list commands executed inside Story (LIST_RANGE, list-from-int, LIST_RANDOM), expression parsing/emission"),
        "assumptions": ["reference evaluator in /verif/harness/native_scalar.rs states Ink's coercion and operator rules"],
    },
}

WARM_GROUPS = {"plain": "native_scalar", "cli": None}
