"""Harness groups and the property -> harness mapping."""
import re

TRUSTED_BASE = [
    "rustc + kani-compiler 0.68 MIR -> goto translation, Kani's models of alloc/core intrinsics",
    "CBMC 6.11.0 symbolic execution + cadical SAT back end",
    "stub: alloc::fmt::format -> empty String (error-message text is not the subject of any claimed kernel)",
    "std::mem::forget on harness inputs/results (drop glue of Rc<dyn RTObject> not executed)",
    "harness-side reference oracles in /verif/harness/*.rs",
]
TRUSTED_BASE_MAP = [
    "model of std::collections::HashMap/HashSet: association list /verif/overlay/verif_map.rs, installed by identifier "
    "rewrite in the scratch copy; iteration order = insertion order, harnesses build the same map in several orders",
]

SHAPES2 = ["bb", "bi", "bf", "ib", "ii", "if", "fb", "fi", "ff"]
TY = {"b": "Bool", "i": "Int", "f": "Float", "v": "Void"}

GROUPS = {
    "native_scalar": {
        "pkg": "bladeink",
        "inject": "runtime/src/native_function_call.rs",
        "modpath": "native_function_call",
        "files": ["native_scalar.rs", "native_scalar_instances.rs"],
        "instance_macros": ["un", "bin", "narrow"],
        "requires": ["pub(crate) fn call(", "enum Op"],
        "model_map": False,
        "panic_property": "C04",
        "functions": [
            "NativeFunctionCall::call", "NativeFunctionCall::coerce_values_to_single_type",
            "NativeFunctionCall::call_type", "NativeFunctionCall::{add,subtract,multiply,divide,mod,negate,equal,not_equals,"
            "greater,less,greater_than_or_equals,less_than_or_equals,and,or,not,min,max,pow,floor,ceiling,int,float}_op",
            "Value::cast", "Value::get_cast_ordinal", "Value::new", "Value::get_value", "Value::get_bool_value",
        ],
        "bounds": ("one harness per (operator, operand type shape) with shapes over {Bool,Int,Float} plus Void operands (must be reported as Err); operand values fully "
                   "symbolic (all 2^32 per i32/f32 operand, both bools); loop unwind 4 (parameter vectors of length <= 2); "
                   "int '/' and '%' value oracle restricted to sign-extended i16 operands (no-panic and Err-on-zero are full width); "
                   "POW, float '%' and float '/' have no value oracle (libm / two IEEE dividers do not finish), only type/no-panic"),
        "stubs": ["alloc::fmt::format"],
    },
    "newline": {
        "pkg": "bladeink",
        "inject": "runtime/src/story/progress.rs",
        "modpath": "story::progress",
        "files": ["newline.rs"],
        "requires": ["fn calculate_newline_output_state_change("],
        "model_map": False,
        "panic_property": "C01",
        "functions": ["Story::calculate_newline_output_state_change"],
        "bounds": ("prev/curr: ASCII byte strings of symbolic length <= N with symbolic contents, N = 3 and 6 (quick), 10 and 16 "
                   "(thorough); plus the append shape prev = p, curr = p + a with |p| <= 8, |a| <= 8; tag counts: all i32 pairs; "
                   "unwind N+2; non-ASCII text is outside the bound"),
        "roles": {
            "nl_len_le_3": "line-end decision, independent prev/curr, each <= 3 ASCII bytes, all tag counts",
            "nl_len_le_6": "line-end decision, independent prev/curr, each <= 6 ASCII bytes, all tag counts",
            "nl_len_le_10": "line-end decision, independent prev/curr, each <= 10 ASCII bytes, all tag counts",
            "nl_len_le_16": "line-end decision, independent prev/curr, each <= 16 ASCII bytes, all tag counts",
            "nl_append_8_8": "line-end decision, curr = prev + appended text, |prev| <= 8, |appended| <= 8",
        },
    },
    "json_value": {
        "pkg": "bladeink",
        "inject": "runtime/src/json/json_read.rs",
        "modpath": "json::json_read",
        "files": ["json_value.rs"],
        "instance_macros": ["arr", "tokarr"],
        "requires": ["pub fn jtoken_to_runtime_object(", "pub fn jarray_to_runtime_obj_list("],
        "requires_in": {"runtime/src/json/json_write.rs": [
            "if let Some(v) = Value::get_bool_value(o.as_ref()) { return Ok(json!(v)); }",
            "if let Some(v) = Value::get_value::<i32>(o.as_ref()) { return Ok(json!(v)); }"]},
        "model_map": True,
        "panic_property": "C15",
        "functions": ["json_write::write_rtobject", "json_read::jtoken_to_runtime_object", "json_read::jarray_to_runtime_obj_list",
                      "ControlCommand::new_from_name", "NativeFunctionCall::new_from_name", "serde_json::Number::{from,from_f64,as_i64,as_f64,is_i64}"],
        "bounds": ("scalars: every i32, both bools (floats: probed, do not finish, not selected); loader tokens: Null, "
                   "Bool, Number built from every i64 / u64 / finite f64, String of length 0..4 with symbolic ASCII bytes, "
                   "token lists of length 0..2 with skip_last symbolic; objects ({...}) are outside (serde_json::Map = BTreeMap, E8')"),
        "stubs": ["alloc::fmt::format"],
        "roles": {
            "rt_int": "save->load of Value::Int, all i32", "rt_bool": "save->load of Value::Bool",
            "rt_float_finite": "(not selected: does not finish) save->load of Value::Float, all finite f32 bit patterns",
            "rt_float_nonfinite": "(not selected: does not finish) save->load of Value::Float, NaN and +-inf",
            "tok_null": "loader on JSON null", "tok_bool": "loader on JSON bool", "tok_i64": "loader on any i64 number",
            "tok_u64": "loader on any u64 number", "tok_f64": "loader on any finite f64 number",
            "tok_str0": "loader on the empty string token", "tok_str1": "loader on any 1-byte ASCII string token",
            "tok_str2": "loader on any 2-byte ASCII string token", "tok_str3": "loader on any 3-byte ASCII string token",
            "tok_str4": "loader on any 4-byte ASCII string token", "hunt_tok_arr_empty": "bug-hunt: loader on [] as a container",
            "hunt_tok_arr_null": "bug-hunt: loader on [null] as a container", "hunt_tok_arr_bool_null": "bug-hunt: loader on [bool, null] as a container", "arr_list_empty_skip": "token-list reader on [] with skip_last", "arr_list_empty_noskip": "token-list reader on []",
            "arr_list_one_number_skip": "token-list reader on [n] with skip_last, n any i64", "arr_list_one_number_noskip": "token-list reader on [n], n any i64",
            "arr_list_bool_null_skip": "token-list reader on [bool, null] with skip_last", "arr_list_bool_null_noskip": "token-list reader on [bool, null]",
            "hunt_arr_list_int_int_noskip": "bug-hunt: token-list reader on [i, j], any i32 pair",
        },
    },
    "count_flags": {
        "pkg": "bladeink", "inject": "runtime/src/container.rs", "modpath": "container", "files": ["count_flags.rs"],
        "requires": ["fn split_count_flags(", "pub fn get_count_flags("], "model_map": True, "panic_property": "C02",
        "functions": ["Container::split_count_flags", "Container::get_count_flags"],
        "bounds": "all i32 flag words; loop-free", "roles": {"count_flags_roundtrip": "container count flags read -> write -> read, all i32"},
    },
    "choice_flags": {
        "pkg": "bladeink", "inject": "runtime/src/choice_point.rs", "modpath": "choice_point", "files": ["choice_flags.rs"],
        "requires": ["pub fn get_flags("], "model_map": False, "panic_property": "C02",
        "functions": ["ChoicePoint::new", "ChoicePoint::get_flags", "Path::new_with_components_string (concrete \"0\")"],
        "bounds": "all i32 flag words; path string fixed to \"0\"", "roles": {"choice_flags_roundtrip": "choice point flags read -> write -> read, all i32"},
    },
    "pushpop": {
        "pkg": "bladeink", "inject": "runtime/src/push_pop.rs", "modpath": "push_pop", "files": ["pushpop.rs"],
        "requires": ["fn from_value("], "model_map": False, "panic_property": "C15",
        "functions": ["PushPopType::from_value"], "stubs": ["alloc::fmt::format"],
        "bounds": "all usize values", "roles": {"pushpop_roundtrip": "call-stack element type code read back, all usize"},
    },
    "list_ops": {
        "pkg": "bladeink",
        "inject": "runtime/src/ink_list.rs",
        "modpath": "ink_list",
        "files": ["list_ops.rs", "list_ops_instances.rs", "list_common.rs"],
        "weight": 4,
        "instance_macros": ["h"],
        "requires": ["pub fn get_max_item(", "fn get_ordered_items(", "pub(crate) fn list_with_sub_range("],
        "model_map": True,
        "panic_property": "C04",
        "functions": [
            "InkList::{get_max_item,get_min_item,max_as_list,min_as_list,get_ordered_items,union,without,intersect,contains,"
            "get_all,inverse,list_with_sub_range,greater_than,greater_than_or_equals,less_than,less_than_or_equals,eq,"
            "get_origin_names,from_other_list}", "ListDefinition::{new,get_items,get_item_with_value}",
            "NativeFunctionCall::{call,call_binary_list_operation,call_list_increment_operation,call_type}", "Value::cast (List)",
            "Value::retain_list_origins_for_assignment", "InkListItem::{new,from_full_name}",
        ],
        "bounds": ("universe LIST A = x, y; LIST B = x, z (item name x declared in both lists) with all four item values symbolic i32; operand lists of concrete "
                   "membership (sizes 0..4) and concrete insertion order; order independence checked on every non-identity "
                   "permutation of every 2- and 3-item list, six permutations of the 4-item list (thorough); list +/- n with |n| < 4 and |value| < 1000 for the value oracle "
                   "(full i32 for the no-panic obligation); unwind 8"),
        "stubs": ["alloc::fmt::format"],
    },
    "tokenizer": {
        "pkg": "bladeink", "inject": "runtime/src/json/json_tokenizer.rs", "modpath": "json::json_tokenizer",
        "files": ["tokenizer.rs"], "requires": ["fn read_string(", "enum Number"], "model_map": False, "panic_property": "C14",
        "functions": ["JsonTokenizer::{new_from_str,read_string,read,read_no_lookahead,read_utf8_char,expect}", "Number::{as_integer,as_float,is_integer}"],
        "bounds": ("string tokens of one escape (all eight two-character escapes; \\uXXXX for every non-surrogate BMP code point, any "
                   "hex digit case), one unescaped ASCII or two-byte UTF-8 character, an escape followed by one character; numbers: "
                   "all i32 / all f32 through the Number conversions; longer strings, surrogate pairs and number TEXT parsing are outside"),
        "stubs": ["alloc::fmt::format"],
        "roles": {"esc_simple": "read_string on \"\\c\" for c in the eight JSON escapes", "esc_u4_ascii": "\\u0000..\\u007f, any hex case",
                  "esc_u4_latin": "\\u0080..\\u07ff", "esc_u4_wide": "\\u0800..\\uffff minus surrogates",
                  "plain_ascii": "one unescaped printable ASCII char", "plain_two_byte_utf8": "one two-byte UTF-8 char",
                  "esc_then_plain": "\\n followed by one ASCII char", "number_int_conversions": "Number::Int(n) conversions, all i32",
                  "number_float_conversions": "Number::Float(f) conversions, all f32"},
    },
    "stream_leaf": {
        "pkg": "bladeink", "inject": "runtime/src/json/json_read_stream.rs", "modpath": "json::json_read_stream",
        "files": ["stream_leaf.rs"], "requires": ["fn jtoken_to_runtime_object(", "enum ArrayElement"], "model_map": True, "panic_property": "C14",
        "functions": ["json_read_stream::jtoken_to_runtime_object (leaf arms)", "json_read::jtoken_to_runtime_object (leaf arms)",
                      "ControlCommand::new_from_name", "NativeFunctionCall::new_from_name", "Value::new::<&str>"],
        "bounds": ("differential: same leaf token through both loaders; every i32, every finite f32, both bools, every text token "
                   "\"^x\" and \"^xy\" with x, y ASCII; every other 1-, 2- and 3-byte ASCII string token (same KIND of object: which control "
                   "command, which native function, glue, void, rejection); longer tokens and objects/arrays (tokenizer-driven in the streaming loader) are outside"),
        "stubs": ["alloc::fmt::format"],
        "roles": {"leaf_int": "integer token, all i32", "leaf_float": "float token, all finite f32", "leaf_bool": "bool token",
                  "leaf_caret_text_1": "text token \"^x\", x any ASCII byte, through both loaders",
                  "leaf_caret_text_2": "text token \"^xy\", x, y any ASCII bytes, through both loaders",
                  "leaf_kind_1": "any 1-byte ASCII non-text string token: same kind of object from both loaders",
                  "leaf_kind_bare_caret": "the bare token \"^\" (empty text): same kind of object from both loaders",
                  "leaf_kind_2": "any 2-byte ASCII non-text string token: same kind of object (which control command / native function / glue / rejection)",
                  "leaf_kind_3": "any 3-byte ASCII non-text string token: same kind of object from both loaders",
                  "leaf_str1": "1-byte ASCII string token", "leaf_str2": "2-byte ASCII string token", "leaf_str3": "3-byte ASCII string token"},
    },
    "cli_escape": {
        "pkg": "rinklecate", "is_bin": True, "inject": "rinklecate/src/player.rs", "modpath": "player",
        "files": ["cli_escape.rs"], "requires": ["fn escape_json_string("], "model_map": False, "panic_property": "C20",
        "functions": ["player::escape_json_string"],
        "bounds": ("input of exactly one ASCII character, every value 0x00..0x7f (covers every character JSON requires to be "
                   "escaped: the controls, quote and backslash), and the two-character inputs 'a' + any ASCII character; non-ASCII characters and inputs longer than one character do not "
                   "finish in CBMC (String growth by a symbolic amount) and are outside the claim"),
        "stubs": ["alloc::fmt::format"],
        "roles": {"esc_char_ascii_control": "one ASCII control char, all of U+0000..U+001F",
                  "esc_char_ascii_printable": "one ASCII char U+0020..U+007F",
                  "esc_plain_then_any_ascii": "the two-character input 'a' + any ASCII char"},
    },
    "native_list": {
        "pkg": "bladeink",
        "inject": "runtime/src/native_function_call.rs",
        "modpath": "native_function_call",
        "files": ["native_list.rs", "native_list_instances.rs", "list_common.rs"],
        "weight": 8,
        "instance_macros": ["h"],
        "requires": ["fn call_type(", "fn call_list_increment_operation(", "fn call_binary_list_operation("],
        "model_map": True,
        "panic_property": "C04",
        "functions": [
            "NativeFunctionCall::{call,call_type,call_binary_list_operation,call_list_increment_operation}",
            "NativeFunctionCall::{add,subtract,intersect,has,hasnt,equal,not_equals,greater,less,greater_than_or_equals,"
            "less_than_or_equals,and,or,not,count,value_of_list,list_min,list_max,all,inverse}_op (List arms)",
            "InkList set algebra (as reached from the operators)", "ListDefinition::get_item_with_value",
        ],
        "bounds": ("same universe as list_ops (LIST A = x, y; LIST B = x, z; four symbolic i32 values); operands of concrete membership; "
                   "typed dispatch through call_type for every list operator; list +/- n through call_list_increment_operation with "
                   "|n| < 4, |value| < 1000 for the value oracle and full i32 for no-panic; the full entry `call` for void operands, "
                   "list-with-scalar mixes and one instance per dispatch route; unwind 8"),
        "stubs": ["alloc::fmt::format"],
    },
    "vars_equal": {
        "pkg": "bladeink", "inject": "runtime/src/variables_state.rs", "modpath": "variables_state", "files": ["vars_equal.rs"],
        "requires": ["fn val_equal(&self, val: &Value, default_val: &Value) -> bool", "&& self.val_equal(val, default_val)"],
        "model_map": True, "panic_property": "C02",
        "functions": ["VariablesState::val_equal", "VariablesState::new", "CallStack::new", "Container::new (empty)"],
        "bounds": "all f32 pairs, all i32 pairs, all bool pairs, all (i32, f32, bool) triples across types; lists, strings, divert targets and variable pointers are outside",
        "roles": {"val_equal_float": "global vs default, both Float, all f32 pairs", "val_equal_int_bool": "global vs default, Int/Int and Bool/Bool",
                  "val_equal_cross_type": "global vs default of different scalar types"},
    },
    "json_object": {
        "pkg": "bladeink", "inject": "runtime/src/json/json_read.rs", "modpath": "json::json_read",
        "files": ["json_object.rs", "json_object_instances.rs"], "instance_macros": ["obj"],
        "requires": ["pub fn jtoken_to_runtime_object(", "use serde_json::Map;"], "model_map": True, "panic_property": "C15",
        "functions": ["json_read::jtoken_to_runtime_object (Object arm)", "json_read::jobject_to_choice", "json_read::jarray_to_tags",
                      "Divert::new", "ChoicePoint::new", "VariableReference::{new,from_path_for_count}", "VariableAssignment::new", "Tag::new",
                      "Value::new_variable_pointer", "Path::new_with_components_string (concrete \"a\")"],
        "bounds": ("one object per harness: {K: v} for each of the 14 keys the loader probes and v in {any i64 number, bool, null, the string "
                   "\"a\"}, plus two/three-key shapes for the secondary keys ci, exArgs, flg, var, c, re, origins, an unknown key and {}; "
                   "serde_json::Map::insert/get stubbed by an association list (iteration over a Map not modelled: list contents, "
                   "container terminators and list definitions are outside)"),
        "stubs": ["alloc::fmt::format", "serde_json::Map::insert", "serde_json::Map::get"],
    },
    "json_dict": {
        "pkg": "bladeink", "inject": "runtime/src/json/json_write.rs", "modpath": "json::json_write", "files": ["json_dict.rs"],
        "requires": ["pub(crate) fn write_int_dictionary(map: &HashMap<String, i32>) -> serde_json::Value"],
        "model_map": True, "panic_property": "C02",
        "functions": ["json_write::write_int_dictionary", "json_write::write_ink_list", "json_write::write_choice", "Choice::new_from_json"], "stubs": ["serde_json::Map::insert"],
        "bounds": "dictionaries of one and two entries with symbolic i32 values (all values, including 0 and -1); key strings concrete",
        "roles": {"int_dict_two_entries": "visitCounts/turnIndices writer on {a: x, b: y}, all i32 x, y",
                  "int_dict_one_entry": "visitCounts/turnIndices writer on {k: x}, all i32 x",
                  "ink_list_write_two_items": "list value writer on (A.x = x, B.x = y), all i32 x, y",
                  "choice_write_indices": "pending-choice writer, index and originalThreadIndex symbolic (all usize), text/paths concrete"},
    },
    "thread_write": {
        "pkg": "bladeink", "inject": "runtime/src/callstack.rs", "modpath": "callstack", "files": ["thread_write.rs"],
        "requires": ["pub(crate) fn write_json(&self) -> Result<serde_json::Value, StoryError>", "pub struct Thread"],
        "model_map": True, "panic_property": "C02",
        "functions": ["Thread::write_json", "Element::new", "PushPopType::from_value"], "stubs": ["serde_json::Map::insert"],
        "bounds": "one thread with one frame: frame kind symbolic over the three kinds, exp symbolic, threadIndex all usize; null pointer, no temporaries",
        "roles": {"thread_write_one_frame": "call-stack thread writer: exp, type code, threadIndex of a single frame"},
    },
}


def describe(gname, h):
    if gname == "native_scalar":
        m = re.match(r"ns_(.+)_([bifv]{1,2})$", h)
        if m:
            return f"NativeFunctionCall::call op={m.group(1)} operands=({', '.join(TY[c] for c in m.group(2))}) values symbolic"
        if h.startswith("nss_"):
            return "NativeFunctionCall::call on string operands of concrete length, symbolic printable-ASCII contents: " + h[4:]
        m = re.match(r"nsv_(.+)_(\w+)$", h)
        if m:
            return (f"NativeFunctionCall::call op={m.group(1)} value oracle on narrow operands ({m.group(2)}: ints = sign-extended "
                    "i16, floats = k/4 with |k| < 2^11), values symbolic within that range")
    if gname == "json_object":
        return ("bug-hunt: " if h.startswith("hunt_") else "") + "loader on the object token " + h.replace("hunt_", "")[4:] + " (key family _ value type; number values symbolic i64)"
    if gname in ("list_ops", "native_list"):
        return "list kernel " + h + " over LIST A=x,y / LIST B=x,z, items a=A.x b=A.y c=B.x d=B.z (item values symbolic; name encodes operator, operand membership, insertion order)"
    d = GROUPS[gname].get("roles", {})
    return d.get(h, h)


# ---- selectors -------------------------------------------------------------
def rot(names, seed, k):
    """seeded rotation: k names starting at an offset derived from the seed"""
    if not names:
        return []
    k = min(k, len(names))
    off = (seed * 7919) % len(names)
    return [names[(off + i) % len(names)] for i in range(k)]


def sel_c04_scalar(tier, seed, names):
    if tier == "thorough":
        return names
    # quick: every operator on the all-Int shape (where overflow / division faults live),
    # the float->int conversions, plus a seeded rotation over the remaining shapes
    core = [n for n in names if re.search(r"_(ii|i)$", n)] + [n for n in names if re.match(r"ns_(int|floor|ceiling)_f$", n)] \
        + [n for n in names if re.search(r"_(vi|iv|v)$", n)][:6]
    rest = [n for n in names if n not in core]
    return core + rot(rest, seed, 6)


def sel_c07_scalar(tier, seed, names):
    if tier == "thorough":
        return names
    core = [n for n in names if re.search(r"_(if|fi|ff|f|bi)$", n) and not re.match(r"ns_(has|hasnt|intersect|list|all|count|value|invert)", n)]
    # the int '/' and '%' VALUE oracles run on every seed (seeded change C07-div-euclid lands only there)
    always = [n for n in names if n.startswith("nsv_")]
    rest = [n for n in names if n not in core and n not in always]
    return always + rot(core, seed, 24) + rot(rest, seed, 6)


def sel_all(tier, seed, names):
    return names


def sel_newline(tier, seed, names):
    if tier == "thorough":
        return names
    return [n for n in names if n in ("nl_len_le_3", "nl_len_le_6")]


def sel_prefix(*prefixes):
    def f(tier, seed, names):
        return [n for n in names if n.startswith(prefixes)]
    return f


CHEAP_DISPATCH = re.compile(r"c07_(bin_(and|or|greater|less)_[a-e]+\d_|un_(count|not|value_of_list)_|call_un_count)")


def sel_dispatch(quick_n):
    """native_list C07 harnesses: only the dispatch instances that finish (measured, DESIGN E13);
    the others are kept in the file for reference but never selected."""
    def f(tier, seed, names):
        mine = [n for n in names if CHEAP_DISPATCH.match(n)]
        if tier == "thorough":
            return mine
        return rot(mine, seed, quick_n)
    return f


def sel_obj(tier, seed, names):
    prove = [n for n in names if n.startswith("obj_")]
    hunt = [n for n in names if n.startswith("hunt_obj_")]
    if tier == "thorough":
        return prove + hunt
    return rot(prove, seed, 12) + rot(hunt, seed, 8)


def sel_c03(tier, seed, names):
    base = [n for n in names if n.startswith("c03_")]
    wide = [n for n in names if n.startswith("c03w_")]
    if tier == "thorough":
        return base + wide
    return rot(base, seed, 16)


def sel_list(prefix, quick_n):
    def f(tier, seed, names):
        mine = [n for n in names if n.startswith(prefix)]
        if tier == "thorough":
            return mine
        return rot(mine, seed, quick_n)
    return f


PROPS = {
    "C03": {
        "groups": {"list_ops": sel_c03},
        "outside": ("RANDOM, shuffles, LIST_RANDOM (inside Story, RNG not encodable), order of globals/visit counts in saves, "
                    "compiler output byte-identity, cross-process/cross-profile equality of whole transcripts"),
        "assumptions": ["HashMap contract = map with unspecified iteration order; every order is reachable (std randomises per instance)"],
    },
    "C01": {
        "groups": {"newline": sel_newline},
        "outside": ("everything else in C01: the interpreter loop, choices, visit counting, whitespace cleaning, the compiler; "
                    "a change in step/process_choice/the emitter is not detected by this check (DESIGN 3/C01)"),
        "assumptions": ["texts are ASCII (the function works on bytes; from_utf8_unchecked is sound for ASCII)"],
    },
    "C02": {
        "groups": {"json_value": sel_prefix("rt_int", "rt_bool"), "count_flags": sel_all, "choice_flags": sel_all, "pushpop": sel_all, "vars_equal": sel_all, "json_dict": sel_all, "thread_write": sel_all},
        "outside": ("flows, threads, call-stack pointers, choices, the variables map, lists, eval-stack order (serde_json::Map / "
                    "Story construction not encodable); the text serialisation of serde_json::Value (to_string / from_str) is trusted"),
        "assumptions": ["serde_json::Value::to_string followed by from_str is the identity on numbers and bools (library contract)"],
    },
    "C14": {
        "groups": {"tokenizer": sel_prefix("number_"), "stream_leaf": sel_prefix("leaf_int", "leaf_float", "leaf_bool", "leaf_caret_text", "leaf_kind")},
        "outside": ("object/array structure and key order in the streaming loader, whitespace layout, number text parsing, whole "
                    "documents, surrogate pairs, strings longer than the stated bounds"),
        "assumptions": ["RFC 8259 escape semantics is what serde_json implements (library contract)"],
    },
    "C20": {
        "groups": {"cli_escape": sel_all},
        "outside": ("hand-assembled issue/cmdOutput lines, parse_input, agreement of the play loop with the library, compile mode, "
                    "exit codes (process-level behaviour, no encodable kernel)"),
        "assumptions": ["RFC 8259 section 7 defines a valid JSON string body"],
    },
    "C15": {
        "groups": {"json_value": sel_prefix("tok_", "arr_", "hunt_"), "pushpop": sel_all, "json_object": sel_obj},
        "outside": ("everything that iterates a JSON object (list contents, named content of container terminators, list "
                    "definitions, flows, threads, call stacks, variables, visit counts); the numeric RANGE of secondary keys such as "
                    "flg/exArgs (only their type is decided); whole-document parsing (serde_json::from_str), nesting depth, bounded "
                    "time, reset-after-failed-load, the streaming loader; hunt_* harnesses make no claim when they time out"),
        "assumptions": ["tokens are built directly as serde_json::Value (what serde_json::from_str hands the loader)",
                        "object tokens: serde_json::Map::insert/get behave as a map from String to Value (stubbed by an association list)"],
    },
    "C04": {
        "groups": {"native_scalar": sel_c04_scalar, "list_ops": sel_list("c04_", 2), "native_list": sel_list("c04_", 8)},
        "outside": ("RANDOM/shuffle seed arithmetic, evaluation-stack and divert-target unwraps, assignment of non-values, "
                    "reset-after-error: all inside Story methods that Kani cannot encode (DESIGN E5-E7)"),
        "assumptions": ["operands reach NativeFunctionCall::call as Rc<Value> of the stated types (what the evaluation stack holds)"],
    },
    "C07": {
        "groups": {"native_scalar": sel_c07_scalar, "list_ops": sel_list("c07_", 16), "native_list": sel_dispatch(5)},
        "outside": ("string concatenation/containment and printing of values (text building), POW and float % values (libm), "
                    "list commands executed inside Story (LIST_RANGE, list-from-int, LIST_RANDOM), expression parsing/emission"),
        "assumptions": ["reference evaluator in /verif/harness/native_scalar.rs states Ink's coercion and operator rules"],
    },
}

WARM_GROUPS = {"plain": "native_scalar", "cli": "cli_escape"}
