// Shared by list_ops.rs (child of ink_list.rs) and native_list.rs (child of
// native_function_call.rs) via include!: the list universe and the reference side.
//
// Universe: LIST A = x, y   LIST B = x, z   with SYMBOLIC item values v[0..4]
// (every tie pattern, negative values, extremes); the item NAME x is deliberately
// declared in both lists. Item index: A.x=0 A.y=1 B.x=2 B.z=3 (harness names use
// a b c d for 0 1 2 3).
const ORIGIN: [&str; 4] = ["A", "A", "B", "B"];
const NAME: [&str; 4] = ["x", "y", "x", "z"];

fn item(i: usize) -> InkListItem {
    InkListItem::new(Some(ORIGIN[i].to_string()), NAME[i].to_string())
}

/// Identity of an item of the universe: first byte of its origin name and first byte
/// of its (non-empty) item name. Cheap for the solver even when `it` is one of several
/// candidates (a full string comparison over a symbolic pointer is not).
fn code(it: &InkListItem) -> u16 {
    let o = match it.get_origin_name() {
        Some(s) => s.as_bytes()[0] as u16,
        None => 0,
    };
    (o << 8) | it.get_item_name().as_bytes()[0] as u16
}

fn code_of_index(i: usize) -> u16 {
    ((ORIGIN[i].as_bytes()[0] as u16) << 8) | NAME[i].as_bytes()[0] as u16
}

#[derive(Clone, Copy)]
struct U {
    v: [i32; 4],
}
fn any_u() -> U {
    U { v: [kani::any(), kani::any(), kani::any(), kani::any()] }
}

/// LIST definition `which` (0 = A, 1 = B); `swap` reverses the declaration insertion order.
fn def(u: &U, which: usize, swap: bool) -> ListDefinition {
    let mut m: HashMap<String, i32> = HashMap::new();
    let (i, j) = if which == 0 { (0, 1) } else { (2, 3) };
    if swap {
        m.insert(NAME[j].to_string(), u.v[j]);
        m.insert(NAME[i].to_string(), u.v[i]);
    } else {
        m.insert(NAME[i].to_string(), u.v[i]);
        m.insert(NAME[j].to_string(), u.v[j]);
    }
    ListDefinition::new(if which == 0 { "A".to_string() } else { "B".to_string() }, m)
}

/// A list holding the items `order` (inserted in that order). Its origins are the
/// definitions of its items' origin names, or, for an empty list, of `empty_origins`
/// (bit 0 = A, bit 1 = B) — what StoryState::push_evaluation_stack establishes.
fn mk(u: &U, order: &[usize], empty_origins: u8) -> InkList {
    let mut l = InkList::new();
    let mut has_a = false;
    let mut has_b = false;
    let mut k = 0;
    while k < order.len() {
        let i = order[k];
        l.items.insert(item(i), u.v[i]);
        if i < 2 {
            has_a = true
        } else {
            has_b = true
        }
        k += 1;
    }
    if order.is_empty() {
        has_a = empty_origins & 1 != 0;
        has_b = empty_origins & 2 != 0;
        let mut names = Vec::new();
        if has_a {
            names.push("A".to_string());
        }
        if has_b {
            names.push("B".to_string());
        }
        l.set_initial_origin_names(names);
    }
    if has_a {
        l.origins.borrow_mut().push(def(u, 0, false));
    }
    if has_b {
        l.origins.borrow_mut().push(def(u, 1, false));
    }
    l
}

/// Membership mask of a result list; None if it holds an item outside the universe
/// or the count disagrees with the mask (duplicate/foreign entries).
fn mask_of(l: &InkList) -> Option<u8> {
    let mut m = 0u8;
    let mut n = 0usize;
    let mut i = 0;
    while i < 4 {
        if l.items.contains_key(&item(i)) {
            m |= 1 << i;
            n += 1;
        }
        i += 1;
    }
    if l.items.len() == n { Some(m) } else { None }
}

fn values_ok(u: &U, l: &InkList) -> bool {
    let mut i = 0;
    while i < 4 {
        if let Some(v) = l.items.get(&item(i)) {
            if *v != u.v[i] {
                return false;
            }
        }
        i += 1;
    }
    true
}

fn mask_from(order: &[usize]) -> u8 {
    let mut m = 0u8;
    let mut k = 0;
    while k < order.len() {
        m |= 1 << order[k];
        k += 1;
    }
    m
}

// min / max VALUE over a mask (None for the empty mask) — reference side
fn ref_min(u: &U, m: u8) -> Option<i32> {
    let mut r: Option<i32> = None;
    let mut i = 0;
    while i < 4 {
        if m & (1 << i) != 0 {
            r = Some(match r {
                None => u.v[i],
                Some(x) => if u.v[i] < x { u.v[i] } else { x },
            });
        }
        i += 1;
    }
    r
}
fn ref_max(u: &U, m: u8) -> Option<i32> {
    let mut r: Option<i32> = None;
    let mut i = 0;
    while i < 4 {
        if m & (1 << i) != 0 {
            r = Some(match r {
                None => u.v[i],
                Some(x) => if u.v[i] > x { u.v[i] } else { x },
            });
        }
        i += 1;
    }
    r
}
fn popcount(m: u8) -> i32 {
    ((m & 1) + ((m >> 1) & 1) + ((m >> 2) & 1) + ((m >> 3) & 1)) as i32
}
fn origin_mask_of_items(m: u8, empty_origins: u8) -> u8 {
    // all items of the origins of a list with membership m
    if m == 0 {
        return (if empty_origins & 1 != 0 { 0b0011 } else { 0 }) | (if empty_origins & 2 != 0 { 0b1100 } else { 0 });
    }
    (if m & 0b0011 != 0 { 0b0011 } else { 0 }) | (if m & 0b1100 != 0 { 0b1100 } else { 0 })
}

fn lv(l: InkList) -> Rc<dyn RTObject> {
    Rc::new(Value::new::<InkList>(l))
}

fn as_list(o: &Rc<dyn RTObject>) -> Option<&InkList> {
    Value::get_value::<&InkList>(o.as_ref())
}

