// Kani harnesses for NativeFunctionCall::call on scalar operands (Bool/Int/Float).
// Injected as a child module of runtime/src/native_function_call.rs in a scratch
// copy of /repo (see /verif/vcheck); a child module sees the parent's private items.
//
// One harness per (operator, operand type shape); operand VALUES are symbolic.
// Obligations:
//   C04: the call never panics (Kani's arithmetic-overflow, division, cast,
//        unwrap, index, unreachable checks fire inside the real code).
//   C07: when Ok, type and value equal the reference evaluator below
//        (assert messages start with "C07:"); Err only where Ink defines a fault
//        (int / or % by zero; MIN/-1, MIN%-1 tolerated either way)
//        (assert messages start with "C04E:" for unexpected Err — a fault report
//        where there is no fault is a C07 matter, classified in the driver).
#![allow(dead_code, unused_imports, clippy::all)]
use super::*;
use std::rc::Rc;

pub(crate) fn stub_format(_args: core::fmt::Arguments<'_>) -> String {
    String::new()
}

#[derive(Clone, Copy, PartialEq)]
enum Ty {
    B,
    I,
    F,
    V, // Void: what a function call that forgot `~ return` leaves on the evaluation stack
}

#[derive(Clone, Copy)]
enum Sc {
    B(bool),
    I(i32),
    F(f32),
    V,
}

fn any_sc(t: Ty) -> Sc {
    match t {
        Ty::B => Sc::B(kani::any()),
        Ty::I => Sc::I(kani::any()),
        Ty::F => Sc::F(kani::any()),
        Ty::V => Sc::V,
    }
}

fn to_obj(s: Sc) -> Rc<dyn RTObject> {
    match s {
        Sc::B(v) => Rc::new(Value::new::<bool>(v)),
        Sc::I(v) => Rc::new(Value::new::<i32>(v)),
        Sc::F(v) => Rc::new(Value::new::<f32>(v)),
        Sc::V => Rc::new(Void::new()),
    }
}

// ---- reference evaluator (independent of the runtime's code) ---------------
// Ink rule: the destination type of a native call is the highest-ranked operand
// type, never lower than Int (Bool < Int < Float). Bool -> 0/1.
#[derive(Clone, Copy)]
enum Num {
    I(i32),
    F(f32),
}
fn coerce(s: Sc, float: bool) -> Num {
    match (s, float) {
        (Sc::B(b), false) => Num::I(if b { 1 } else { 0 }),
        (Sc::B(b), true) => Num::F(if b { 1.0 } else { 0.0 }),
        (Sc::I(i), false) => Num::I(i),
        (Sc::I(i), true) => Num::F(i as f32),
        (Sc::F(f), _) => Num::F(f),
        (Sc::V, _) => Num::I(0), // never used: reference() reports Fault first
    }
}
fn is_f(s: Sc) -> bool {
    matches!(s, Sc::F(_))
}

#[derive(Clone, Copy)]
enum Exp {
    I(i32),
    F(f32),
    B(bool),
    // result must be one of the two (f32::min/max: sign of zero / NaN operand unspecified)
    FOneOf(f32, f32),
    Fault,      // Ink defines a story fault here: Err required
    FaultOrI(i32), // i32::MIN / -1, MIN % -1: Err or the wrapped value
    Skip,       // no value-level oracle (POW, float %, full-width float /): result must be a Float
    AnyI,       // full-width int / and %: result must be an Int (value oracle lives in the nsv_* harnesses)
}

fn f_floor(x: f32) -> f32 {
    // independent floor: via truncation, valid for |x| < 2^23, identity above (already integral).
    // IEEE 754: a zero result carries the sign of the operand (floor(-0.0) = -0.0).
    if x != x || x.abs() >= 8388608.0 {
        return x;
    }
    let t = (x as i32) as f32;
    let r = if t > x { t - 1.0 } else { t };
    if r == 0.0 { 0.0f32.copysign(x) } else { r }
}
fn f_ceil(x: f32) -> f32 {
    // IEEE 754: a zero result carries the sign of the operand (ceil(-0.5) = -0.0).
    if x != x || x.abs() >= 8388608.0 {
        return x;
    }
    let t = (x as i32) as f32;
    let r = if t < x { t + 1.0 } else { t };
    if r == 0.0 { 0.0f32.copysign(x) } else { r }
}

fn reference(op: Op, a: Sc, b: Option<Sc>, narrow: bool) -> Exp {
    // a void operand is a story fault for every operator
    if matches!(a, Sc::V) || matches!(b, Some(Sc::V)) {
        return Exp::Fault;
    }
    let float = is_f(a) || b.map(is_f).unwrap_or(false);
    let x = coerce(a, float);
    let y = b.map(|b| coerce(b, float));
    match (x, y) {
        (Num::I(x), None) => match op {
            Op::Negate => Exp::I(x.wrapping_neg()),
            Op::Not => Exp::B(x == 0),
            Op::Floor | Op::Ceiling | Op::Int => Exp::I(x),
            Op::Float => Exp::F(x as f32),
            _ => Exp::Fault,
        },
        (Num::F(x), None) => match op {
            Op::Negate => Exp::F(-x),
            Op::Not => Exp::B(x == 0.0),
            Op::Floor => Exp::F(f_floor(x)),
            Op::Ceiling => Exp::F(f_ceil(x)),
            Op::Int => Exp::I(x as i32),
            Op::Float => Exp::F(x),
            _ => Exp::Fault,
        },
        (Num::I(x), Some(Num::I(y))) => match op {
            Op::Add => Exp::I(x.wrapping_add(y)),
            Op::Subtract => Exp::I(x.wrapping_sub(y)),
            Op::Multiply => Exp::I(x.wrapping_mul(y)),
            Op::Divide => {
                if y == 0 {
                    Exp::Fault
                } else if x == i32::MIN && y == -1 {
                    Exp::FaultOrI(i32::MIN)
                } else if narrow {
                    Exp::I(x / y)
                } else {
                    Exp::AnyI
                }
            }
            Op::Mod => {
                if y == 0 {
                    Exp::Fault
                } else if x == i32::MIN && y == -1 {
                    Exp::FaultOrI(0)
                } else if narrow {
                    Exp::I(x % y)
                } else {
                    Exp::AnyI
                }
            }
            Op::Equal => Exp::B(x == y),
            Op::NotEquals => Exp::B(x != y),
            Op::Greater => Exp::B(x > y),
            Op::Less => Exp::B(x < y),
            Op::GreaterThanOrEquals => Exp::B(x >= y),
            Op::LessThanOrEquals => Exp::B(x <= y),
            Op::And => Exp::B(x != 0 && y != 0),
            Op::Or => Exp::B(x != 0 || y != 0),
            Op::Min => Exp::I(if x < y { x } else { y }),
            Op::Max => Exp::I(if x > y { x } else { y }),
            Op::Pow => Exp::Skip,
            _ => Exp::Fault,
        },
        (Num::F(x), Some(Num::F(y))) => match op {
            Op::Add => Exp::F(x + y),
            Op::Subtract => Exp::F(x - y),
            Op::Multiply => Exp::F(x * y),
            Op::Divide => {
                if narrow {
                    Exp::F(x / y)
                } else {
                    Exp::Skip
                }
            }
            Op::Mod => Exp::Skip,
            Op::Equal => Exp::B(x == y),
            Op::NotEquals => Exp::B(x != y),
            Op::Greater => Exp::B(x > y),
            Op::Less => Exp::B(x < y),
            Op::GreaterThanOrEquals => Exp::B(x >= y),
            Op::LessThanOrEquals => Exp::B(x <= y),
            Op::And => Exp::B(x != 0.0 && y != 0.0),
            Op::Or => Exp::B(x != 0.0 || y != 0.0),
            Op::Min => {
                if x != x || y != y {
                    Exp::Skip
                } else {
                    Exp::FOneOf(if x < y { x } else { y }, if x <= y { x } else { y })
                }
            }
            Op::Max => {
                if x != x || y != y {
                    Exp::Skip
                } else {
                    Exp::FOneOf(if x > y { x } else { y }, if x >= y { x } else { y })
                }
            }
            Op::Pow => Exp::Skip,
            _ => Exp::Fault,
        },
        _ => Exp::Fault,
    }
}

fn same_f(a: f32, b: f32) -> bool {
    (a != a && b != b) || a.to_bits() == b.to_bits()
}

fn check(op: Op, a: Sc, b: Option<Sc>, narrow: bool) {
    let nfc = NativeFunctionCall::new(op);
    let mut params: Vec<Rc<dyn RTObject>> = Vec::with_capacity(2);
    params.push(to_obj(a));
    if let Some(b) = b {
        params.push(to_obj(b));
    }
    let exp = reference(op, a, b, narrow);
    let r = nfc.call(params);
    match &r {
        Err(_) => {
            kani::cover!(true, "returned Err");
            assert!(
                matches!(exp, Exp::Fault | Exp::FaultOrI(_)),
                "C07: native op returned Err where Ink defines a value"
            );
        }
        Ok(o) => {
            kani::cover!(true, "returned Ok");
            let got_i = Value::get_value::<i32>(o.as_ref());
            let got_f = Value::get_value::<f32>(o.as_ref());
            let got_b = Value::get_bool_value(o.as_ref());
            match exp {
                Exp::I(v) | Exp::FaultOrI(v) => {
                    assert!(got_i == Some(v), "C07: wrong int result of native op")
                }
                Exp::F(v) => assert!(
                    got_f.is_some() && same_f(got_f.unwrap(), v),
                    "C07: wrong float result of native op"
                ),
                Exp::FOneOf(v, w) => assert!(
                    got_f.is_some() && (same_f(got_f.unwrap(), v) || same_f(got_f.unwrap(), w)),
                    "C07: wrong float min/max result of native op"
                ),
                Exp::B(v) => assert!(got_b == Some(v), "C07: wrong bool result of native op"),
                Exp::Fault => assert!(false, "C04: native op returned Ok where Ink defines a fault (division/modulo by zero must be an error)"),
                Exp::Skip => assert!(got_f.is_some(), "C07: wrong result type of native op"),
                Exp::AnyI => assert!(got_i.is_some(), "C07: wrong result type of native op"),
            }
        }
    }
    std::mem::forget(r);
}

macro_rules! un {
    ($name:ident, $op:ident, $t:ident) => {
        #[kani::proof]
        #[kani::unwind(4)]
        #[kani::stub(alloc::fmt::format, stub_format)]
        fn $name() {
            check(Op::$op, any_sc(Ty::$t), None, false);
        }
    };
}
macro_rules! bin {
    ($name:ident, $op:ident, $t1:ident, $t2:ident) => {
        #[kani::proof]
        #[kani::unwind(4)]
        #[kani::stub(alloc::fmt::format, stub_format)]
        fn $name() {
            check(Op::$op, any_sc(Ty::$t1), Some(any_sc(Ty::$t2)), false);
        }
    };
}

// ---- narrow-width value oracles for the division kernels -------------------
// Full-width equivalence of two 32-bit dividers (int or IEEE) does not finish in
// SAT; the value of / and % is therefore decided on operands that are
// sign-extended i16 (ints) or small exactly representable floats k/4, |k| < 2^11.
fn small_i() -> Sc {
    let v: i16 = kani::any();
    Sc::I(v as i32)
}
macro_rules! narrow {
    ($name:ident, $op:ident, $a:ident, $b:ident) => {
        #[kani::proof]
        #[kani::unwind(4)]
        #[kani::stub(alloc::fmt::format, stub_format)]
        fn $name() {
            check(Op::$op, $a(), Some($b()), true);
        }
    };
}
narrow!(nsv_divide_ii16, Divide, small_i, small_i);
narrow!(nsv_mod_ii16, Mod, small_i, small_i);
// float '/' on small exactly-representable operands (k/4, |k| < 2^11) was probed and does not
// finish (two IEEE dividers, 300 s / 600 s): the VALUE of float division is outside the claim;
// type and no-panic are decided at full width by ns_divide_{ff,fi,if,...}.

// ---- string operands (C07): concatenation, equality, containment ------------------
// Operand strings have CONCRETE lengths and symbolic printable-ASCII contents (a symbolic
// length would make every String allocation symbolic: DESIGN E4/E15).
fn str_obj(bytes: &[u8]) -> Rc<dyn RTObject> {
    let mut i = 0;
    while i < bytes.len() {
        kani::assume(bytes[i] >= 0x20 && bytes[i] < 0x7f);
        i += 1;
    }
    // SAFETY: printable ASCII
    let s = unsafe { std::str::from_utf8_unchecked(bytes) };
    Rc::new(Value::new::<&str>(s))
}
fn result_str(o: &Rc<dyn RTObject>) -> Option<&[u8]> {
    Value::get_value::<&crate::value_type::StringValue>(o.as_ref()).map(|s| s.string.as_bytes())
}

#[kani::proof]
#[kani::unwind(8)]
#[kani::stub(alloc::fmt::format, stub_format)]
fn nss_concat_1_2() {
    let a: [u8; 1] = kani::any();
    let b: [u8; 2] = kani::any();
    let r = NativeFunctionCall::new(Op::Add).call(vec![str_obj(&a), str_obj(&b)]);
    match &r {
        Ok(o) => {
            kani::cover!(true, "returned Ok");
            let got = result_str(o);
            assert!(got.is_some(), "C07: string + string must yield a string");
            let got = got.unwrap();
            assert!(got.len() == 3 && got[0] == a[0] && got[1] == b[0] && got[2] == b[1], "C07: string concatenation differs from left followed by right");
        }
        Err(_) => assert!(false, "C07: string + string returned Err"),
    }
    std::mem::forget(r);
}

fn str_equal(ne: bool) {
    let a: [u8; 2] = kani::any();
    let b: [u8; 2] = kani::any();
    let r = NativeFunctionCall::new(if ne { Op::NotEquals } else { Op::Equal }).call(vec![str_obj(&a), str_obj(&b)]);
    let same = a[0] == b[0] && a[1] == b[1];
    match &r {
        Ok(o) => {
            kani::cover!(same, "must: equal strings");
            kani::cover!(!same, "must: different strings");
            assert!(Value::get_bool_value(o.as_ref()) == Some(same != ne), "C07: string == / != differs from byte-wise equality");
        }
        Err(_) => assert!(false, "C07: string == string returned Err"),
    }
    std::mem::forget(r);
}

#[kani::proof]
#[kani::unwind(8)]
#[kani::stub(alloc::fmt::format, stub_format)]
fn nss_equal_2_2() {
    str_equal(false);
}

#[kani::proof]
#[kani::unwind(8)]
#[kani::stub(alloc::fmt::format, stub_format)]
fn nss_not_equals_2_2() {
    str_equal(true);
}

// string containment (`?`, `!?`: str::contains -> TwoWaySearcher) was probed on a 2-byte haystack and a 1-byte
// needle and does not finish (1200 s): outside the claim.

include!("native_scalar_instances.rs");
