// Kani harness for PushPopType::from_value (C02/C15): the call-stack element type
// read from a save. Child module of push_pop.rs.
#![allow(dead_code, unused_imports, clippy::all)]
use super::*;

pub(crate) fn stub_format(_args: core::fmt::Arguments<'_>) -> String {
    String::new()
}

#[kani::proof]
#[kani::unwind(4)]
#[kani::stub(alloc::fmt::format, stub_format)]
fn pushpop_roundtrip() {
    // the writer stores `type as u32`-style discriminants 0,1,2 (callstack.rs)
    let v: usize = kani::any();
    let r = PushPopType::from_value(v);
    match v {
        0 => assert!(matches!(r, Ok(PushPopType::Tunnel)), "C02: push-pop type 0 must read back as Tunnel"),
        1 => assert!(matches!(r, Ok(PushPopType::Function)), "C02: push-pop type 1 must read back as Function"),
        2 => assert!(
            matches!(r, Ok(PushPopType::FunctionEvaluationFromGame)),
            "C02: push-pop type 2 must read back as FunctionEvaluationFromGame"
        ),
        _ => assert!(r.is_err(), "C15: unknown push-pop type must be rejected"),
    }
    assert!(PushPopType::Tunnel as usize == 0 && PushPopType::Function as usize == 1
        && PushPopType::FunctionEvaluationFromGame as usize == 2, "C02: push-pop discriminants changed");
    kani::cover!(v == 2, "must: FunctionEvaluationFromGame");
    kani::cover!(v > 2, "must: rejected");
    std::mem::forget(r);
}
