// Differential Kani harnesses (C14): the streaming loader and the default loader
// must build the same runtime object from the same leaf token. Child module of
// runtime/src/json/json_read_stream.rs; calls the real
// json_read::jtoken_to_runtime_object and json_read_stream::jtoken_to_runtime_object.
#![allow(dead_code, unused_imports, clippy::all)]
use super::*;
use crate::control_command::CommandType;
use crate::json::json_read;
use crate::json::json_tokenizer::Number;
use crate::native_function_call::Op;

pub(crate) fn stub_format(_args: core::fmt::Arguments<'_>) -> String {
    String::new()
}

// A structural fingerprint of a runtime object: (kind, payload)
// kind: 0 Err, 1 Bool, 2 Int, 3 Float, 4 String, 5 Glue, 6 ControlCommand, 7 NativeFunctionCall, 8 Void, 9 other
fn fingerprint(o: &Rc<dyn RTObject>) -> (u8, u64) {
    if let Some(b) = Value::get_bool_value(o.as_ref()) {
        return (1, b as u64);
    }
    if let Some(i) = Value::get_value::<i32>(o.as_ref()) {
        return (2, i as u32 as u64);
    }
    if let Some(f) = Value::get_value::<f32>(o.as_ref()) {
        return (3, f.to_bits() as u64);
    }
    if let Some(s) = Value::get_value::<&crate::value_type::StringValue>(o.as_ref()) {
        let b = s.string.as_bytes();
        let mut h: u64 = b.len() as u64;
        let mut i = 0;
        while i < b.len() && i < 4 {
            h = h * 256 + b[i] as u64;
            i += 1;
        }
        h = h * 4 + (s.is_newline as u64) * 2 + (s.is_inline_whitespace as u64);
        return (4, h);
    }
    if o.as_any().is::<Glue>() {
        return (5, 0);
    }
    if let Some(c) = o.as_any().downcast_ref::<ControlCommand>() {
        return (6, c.command_type as u64);
    }
    if let Some(n) = o.as_any().downcast_ref::<NativeFunctionCall>() {
        return (7, n.op as u64);
    }
    if o.as_any().is::<Void>() {
        return (8, 0);
    }
    (9, 0)
}

fn fp_serde(tok: &serde_json::Value) -> (u8, u64) {
    match json_read::jtoken_to_runtime_object(tok, None) {
        Ok(o) => {
            let f = fingerprint(&o);
            std::mem::forget(o);
            f
        }
        Err(e) => {
            std::mem::forget(e);
            (0, 0)
        }
    }
}

fn fp_stream(v: JsonValue) -> (u8, u64) {
    let mut t = JsonTokenizer::new_from_str("");
    match jtoken_to_runtime_object(&mut t, v, None) {
        Ok(ArrayElement::RTObject(o)) => {
            let f = fingerprint(&o);
            std::mem::forget(o);
            f
        }
        Ok(other) => {
            std::mem::forget(other);
            (10, 0)
        }
        Err(e) => {
            std::mem::forget(e);
            (0, 0)
        }
    }
}

#[kani::proof]
#[kani::unwind(4)]
#[kani::stub(alloc::fmt::format, stub_format)]
fn leaf_int() {
    let n: i32 = kani::any();
    let a = fp_serde(&serde_json::Value::Number(serde_json::Number::from(n as i64)));
    let b = fp_stream(JsonValue::Number(Number::Int(n)));
    assert!(a == b, "C14: the two loaders build different objects from the same integer token");
    assert!(a == (2, n as u32 as u64), "C14: integer token not loaded as that integer");
    kani::cover!(n < 0, "must: negative");
}

#[kani::proof]
#[kani::unwind(4)]
#[kani::stub(alloc::fmt::format, stub_format)]
fn leaf_float() {
    let f: f32 = kani::any();
    kani::assume(f.is_finite());
    let n = serde_json::Number::from_f64(f as f64);
    assert!(n.is_some());
    let a = fp_serde(&serde_json::Value::Number(n.unwrap()));
    let b = fp_stream(JsonValue::Number(Number::Float(f)));
    assert!(a == b, "C14: the two loaders build different objects from the same float token");
    assert!(a == (3, f.to_bits() as u64), "C14: float token not loaded as that float");
    kani::cover!(f == 2.0, "must: integral-valued float");
}

#[kani::proof]
#[kani::unwind(4)]
#[kani::stub(alloc::fmt::format, stub_format)]
fn leaf_bool() {
    let v: bool = kani::any();
    let a = fp_serde(&serde_json::Value::Bool(v));
    let b = fp_stream(JsonValue::Boolean(v));
    assert!(a == b && a == (1, v as u64), "C14: the two loaders build different objects from the same bool token");
    kani::cover!(v, "must: true");
}

fn ascii(b: u8) -> u8 {
    kani::assume(b < 0x80);
    b
}

fn leaf_str(bytes: &[u8]) {
    let s1 = unsafe { String::from_utf8_unchecked(bytes.to_vec()) };
    let s2 = unsafe { String::from_utf8_unchecked(bytes.to_vec()) };
    let a = fp_serde(&serde_json::Value::String(s1));
    let b = fp_stream(JsonValue::String(s2));
    assert!(a == b, "C14: the two loaders build different objects from the same string token");
    kani::cover!(a.0 == 4, "string value");
    kani::cover!(a.0 == 0, "rejected");
    kani::cover!(a.0 == 7, "native function");
}

#[kani::proof]
#[kani::unwind(16)]
#[kani::stub(alloc::fmt::format, stub_format)]
fn leaf_str1() {
    let b = [ascii(kani::any())];
    leaf_str(&b);
}

#[kani::proof]
#[kani::unwind(16)]
#[kani::stub(alloc::fmt::format, stub_format)]
fn leaf_str2() {
    let b = [ascii(kani::any()), ascii(kani::any())];
    leaf_str(&b);
    kani::cover!(b[0] == b'<' && b[1] == b'>', "must: glue");
    kani::cover!(b[0] == b'^', "must: string value");
}

#[kani::proof]
#[kani::unwind(16)]
#[kani::stub(alloc::fmt::format, stub_format)]
fn leaf_str3() {
    let b = [ascii(kani::any()), ascii(kani::any()), ascii(kani::any())];
    leaf_str(&b);
    kani::cover!(b[0] == b'o' && b[1] == b'u' && b[2] == b't', "must: control command out");
    kani::cover!(b[0] == b'M' && b[1] == b'I' && b[2] == b'N', "must: native MIN");
}

// text tokens "^x" / "^xy": both loaders must strip exactly the one leading caret
fn text_of(o: &Rc<dyn RTObject>) -> Option<&[u8]> {
    Value::get_value::<&crate::value_type::StringValue>(o.as_ref()).map(|s| s.string.as_bytes())
}

fn caret_text(bytes: &[u8]) {
    let s1 = unsafe { String::from_utf8_unchecked(bytes.to_vec()) };
    let s2 = unsafe { String::from_utf8_unchecked(bytes.to_vec()) };
    let a = json_read::jtoken_to_runtime_object(&serde_json::Value::String(s1), None);
    let mut t = JsonTokenizer::new_from_str("");
    let b = jtoken_to_runtime_object(&mut t, JsonValue::String(s2), None);
    match (&a, &b) {
        (Ok(x), Ok(ArrayElement::RTObject(y))) => {
            let tx = text_of(x);
            let ty = text_of(y);
            assert!(tx.is_some() && ty.is_some(), "C14: a \"^...\" token must load as a string value in both loaders");
            let (tx, ty) = (tx.unwrap(), ty.unwrap());
            assert!(tx.len() == bytes.len() - 1 && ty.len() == bytes.len() - 1, "C14: a loader stripped more or less than the one leading caret of a text token");
            let mut i = 0;
            while i < tx.len() {
                assert!(tx[i] == bytes[i + 1] && ty[i] == bytes[i + 1], "C14: the two loaders build different text from the same token");
                i += 1;
            }
        }
        _ => assert!(false, "C14: a \"^...\" token was rejected by one of the loaders"),
    }
    std::mem::forget((a, b));
}

#[kani::proof]
#[kani::unwind(8)]
#[kani::stub(alloc::fmt::format, stub_format)]
fn leaf_caret_text_1() {
    let x = ascii(kani::any());
    kani::cover!(x == b'^', "must: text that itself starts with a caret");
    kani::cover!(x == b'a', "must: plain text");
    caret_text(&[b'^', x]);
}

#[kani::proof]
#[kani::unwind(8)]
#[kani::stub(alloc::fmt::format, stub_format)]
fn leaf_caret_text_2() {
    let x = ascii(kani::any());
    let y = ascii(kani::any());
    kani::cover!(x == b'^' && y == b'_', "must: text that itself starts with a caret");
    caret_text(&[b'^', x, y]);
}

// short non-text tokens: both loaders must build the same KIND of object (control command and
// which, native function and which, glue, void, string value, or rejection)
fn kind(o: &Rc<dyn RTObject>) -> (u8, u32) {
    if let Some(c) = o.as_any().downcast_ref::<ControlCommand>() {
        return (6, c.command_type as u32);
    }
    if let Some(n) = o.as_any().downcast_ref::<NativeFunctionCall>() {
        return (7, n.op as u32);
    }
    if o.as_any().is::<Glue>() {
        return (5, 0);
    }
    if o.as_any().is::<Void>() {
        return (8, 0);
    }
    if o.as_any().is::<Value>() {
        return (4, 0);
    }
    (9, 0)
}

fn kinds_agree(bytes: &[u8]) {
    let s1 = unsafe { String::from_utf8_unchecked(bytes.to_vec()) };
    let s2 = unsafe { String::from_utf8_unchecked(bytes.to_vec()) };
    let a = json_read::jtoken_to_runtime_object(&serde_json::Value::String(s1), None);
    let mut t = JsonTokenizer::new_from_str("");
    let b = jtoken_to_runtime_object(&mut t, JsonValue::String(s2), None);
    let ka = match &a {
        Ok(o) => kind(o),
        Err(_) => (0, 0),
    };
    let kb = match &b {
        Ok(ArrayElement::RTObject(o)) => kind(o),
        Ok(_) => (10, 0),
        Err(_) => (0, 0),
    };
    assert!(ka == kb, "C14: the two loaders build different kinds of object from the same string token");
    kani::cover!(ka.0 == 6, "control command");
    kani::cover!(ka.0 == 7, "native function");
    kani::cover!(ka.0 == 0, "rejected");
    std::mem::forget((a, b));
}

#[kani::proof]
#[kani::unwind(16)]
#[kani::stub(alloc::fmt::format, stub_format)]
fn leaf_kind_1() {
    let x = ascii(kani::any());
    kani::assume(x != b'^');
    kinds_agree(&[x]);
}

// the bare one-character token "^" (empty text): neither leaf_kind_1 (excludes '^') nor
// leaf_caret_text_1 ("^x") reaches it; seeded change C14-stream-bare-caret lives exactly there
#[kani::proof]
#[kani::unwind(16)]
#[kani::stub(alloc::fmt::format, stub_format)]
fn leaf_kind_bare_caret() {
    let x = ascii(kani::any());
    kani::assume(x == b'^');
    kani::cover!(x == b'^', "must: bare caret token");
    kinds_agree(&[x]);
}

#[kani::proof]
#[kani::unwind(16)]
#[kani::stub(alloc::fmt::format, stub_format)]
fn leaf_kind_2() {
    let x = ascii(kani::any());
    let y = ascii(kani::any());
    kani::assume(x != b'^');
    kinds_agree(&[x, y]);
}

#[kani::proof]
#[kani::unwind(16)]
#[kani::stub(alloc::fmt::format, stub_format)]
fn leaf_kind_3() {
    let x = ascii(kani::any());
    let y = ascii(kani::any());
    let z = ascii(kani::any());
    kani::assume(x != b'^');
    kinds_agree(&[x, y, z]);
}
