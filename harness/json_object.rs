// Kani harnesses for the loader on OBJECT-shaped tokens (C15): {"<key>": <value>, ...} for every
// key json_read::jtoken_to_runtime_object probes, with values of the right and of the wrong type.
// Child module of runtime/src/json/json_read.rs (model-map scratch copy).
//
// serde_json::Map is a BTreeMap; even a one-entry map gives CBMC no answer in 900 s (DESIGN E8',
// E21). Stub (part of the trusted base for this group): Map::insert and Map::get are replaced by
// an association list kept next to the (untouched, empty) map — the contract "a map from String
// to Value" and nothing else; iteration over a Map is NOT modelled, so only tokens whose handling
// uses get() are in scope (every harness here builds exactly one object). Natively (replay) the
// stubs do not apply and the real BTreeMap is used.
#![allow(dead_code, unused_imports, static_mut_refs, clippy::all)]
use super::*;
use std::borrow::Borrow;
use std::hash::Hash;

pub(crate) fn stub_format(_args: core::fmt::Arguments<'_>) -> String {
    String::new()
}

static mut SIDE: Option<Vec<(String, serde_json::Value)>> = None;

fn side() -> &'static mut Vec<(String, serde_json::Value)> {
    unsafe { (*core::ptr::addr_of_mut!(SIDE)).get_or_insert_with(Vec::new) }
}

pub(crate) fn stub_map_insert(_m: &mut Map<String, serde_json::Value>, k: String, v: serde_json::Value) -> Option<serde_json::Value> {
    side().push((k, v));
    None
}

pub(crate) fn stub_map_get<'a, Q>(_m: &'a Map<String, serde_json::Value>, key: &Q) -> Option<&'a serde_json::Value>
where
    String: Borrow<Q>,
    Q: ?Sized + Ord + Eq + Hash,
{
    let s = side();
    let mut i = 0;
    while i < s.len() {
        let k: &Q = s[i].0.borrow();
        if k == key {
            return Some(&s[i].1);
        }
        i += 1;
    }
    None
}

// leaf values: a string "a", any i64 number, a bool, null, a string of one symbolic ASCII byte
fn v_str() -> serde_json::Value {
    serde_json::Value::String("a".to_string())
}
fn v_num() -> serde_json::Value {
    let n: i64 = kani::any();
    serde_json::Value::Number(serde_json::Number::from(n))
}
fn v_bool() -> serde_json::Value {
    serde_json::Value::Bool(kani::any())
}
fn v_null() -> serde_json::Value {
    serde_json::Value::Null
}

fn feed_obj(entries: Vec<(&str, serde_json::Value)>) {
    let mut m = Map::default();
    for (k, v) in entries {
        m.insert(k.to_string(), v);
    }
    let tok = serde_json::Value::Object(m);
    kani::cover!(true, "loader called");
    let r = jtoken_to_runtime_object(&tok, None);
    kani::cover!(r.is_ok(), "loader returned Ok");
    kani::cover!(r.is_err(), "loader returned Err");
    std::mem::forget((tok, r));
}

macro_rules! obj {
    ($name:ident, $entries:expr) => {
        #[kani::proof]
        #[kani::unwind(24)]
        #[kani::stub(alloc::fmt::format, stub_format)]
        #[kani::stub(serde_json::Map::insert, stub_map_insert)]
        #[kani::stub(serde_json::Map::get, stub_map_get)]
        fn $name() {
            feed_obj($entries);
        }
    };
}

include!("json_object_instances.rs");
