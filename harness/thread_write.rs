// Kani harness for Thread::write_json (C02): the scalar fields of a call-stack frame in a save —
// "exp" (in expression evaluation), "type" (frame kind code) and "threadIndex" — are written as
// they are, and the frame kind code is the one PushPopType::from_value reads back.
// Child module of runtime/src/callstack.rs (model-map scratch copy). Frames have a null pointer
// (no cPath/idx: those need a content tree) and no temporaries.
// serde_json::Map::insert is stubbed by an association list (DESIGN E22).
#![allow(dead_code, unused_imports, static_mut_refs, clippy::all)]
use super::*;

static mut SIDE: Option<Vec<(String, serde_json::Value)>> = None;

fn side() -> &'static mut Vec<(String, serde_json::Value)> {
    unsafe { (*core::ptr::addr_of_mut!(SIDE)).get_or_insert_with(Vec::new) }
}

pub(crate) fn stub_map_insert(_m: &mut Map<String, serde_json::Value>, k: String, v: serde_json::Value) -> Option<serde_json::Value> {
    side().push((k, v));
    None
}

fn find(key: &str) -> Option<&'static serde_json::Value> {
    let s = side();
    let mut i = 0;
    let mut found = None;
    let mut n = 0;
    while i < s.len() {
        if s[i].0 == key {
            found = Some(&s[i].1);
            n += 1;
        }
        i += 1;
    }
    if n == 1 { found } else { None }
}

#[kani::proof]
#[kani::unwind(16)]
#[kani::stub(serde_json::Map::insert, stub_map_insert)]
fn thread_write_one_frame() {
    let k: u8 = kani::any();
    kani::assume(k < 3);
    let ty = match k {
        0 => PushPopType::Tunnel,
        1 => PushPopType::Function,
        _ => PushPopType::FunctionEvaluationFromGame,
    };
    let exp: bool = kani::any();
    let tidx: usize = kani::any();
    let mut t = Thread::new();
    t.thread_index = tidx;
    t.callstack.push(Element::new(ty, pointer::NULL.clone(), exp));
    let r = t.write_json();
    assert!(r.is_ok(), "C02: writing a thread failed");
    assert!(find("exp").and_then(|v| v.as_bool()) == Some(exp), "C02: frame 'exp' flag not written as is");
    let code = find("type").and_then(|v| v.as_i64());
    assert!(code.is_some(), "C02: frame 'type' not written as an integer");
    let back = PushPopType::from_value(code.unwrap() as usize);
    assert!(matches!(back, Ok(x) if x == ty), "C02: frame type code does not read back as the same frame kind");
    assert!(find("threadIndex").and_then(|v| v.as_u64()) == Some(tidx as u64), "C02: threadIndex not written as is");
    assert!(find("cPath").is_none() && find("idx").is_none(), "C02: a frame with a null pointer must not write a position");
    kani::cover!(k == 2 && exp, "must: FunctionEvaluationFromGame in expression evaluation");
    std::mem::forget((t, r));
}

// The read-back half (Thread::from_json on the written object with Map::get stubbed as well) was probed and does
// not finish (900 s). Outside the claim.
