// Kani harness for json_write::write_int_dictionary (C02): the writer of a save's visitCounts
// and turnIndices. Every entry of the map must be written, with its value — a missing
// turn index means "never visited" (-1), which is different from a stored 0.
// Child module of runtime/src/json/json_write.rs (model-map scratch copy).
// serde_json::Map::insert is stubbed by an association list (see json_object.rs / DESIGN E22).
#![allow(dead_code, unused_imports, static_mut_refs, clippy::all)]
use super::*;

static mut SIDE: Option<Vec<(String, serde_json::Value)>> = None;

fn side() -> &'static mut Vec<(String, serde_json::Value)> {
    unsafe { (*core::ptr::addr_of_mut!(SIDE)).get_or_insert_with(Vec::new) }
}

pub(crate) fn stub_map_insert(_m: &mut Map<String, serde_json::Value>, k: String, v: serde_json::Value) -> Option<serde_json::Value> {
    side().push((k, v));
    None
}

fn written(key: &str) -> Option<i64> {
    let s = side();
    let mut i = 0;
    let mut found: Option<i64> = None;
    let mut n = 0;
    while i < s.len() {
        if s[i].0.as_bytes()[0] == key.as_bytes()[0] {
            found = s[i].1.as_i64();
            n += 1;
        }
        i += 1;
    }
    if n == 1 { found } else { None }
}

#[kani::proof]
#[kani::unwind(6)]
#[kani::stub(serde_json::Map::insert, stub_map_insert)]
fn int_dict_two_entries() {
    let x: i32 = kani::any();
    let y: i32 = kani::any();
    let mut m: HashMap<String, i32> = HashMap::new();
    m.insert("a".to_string(), x);
    m.insert("b".to_string(), y);
    let v = write_int_dictionary(&m);
    assert!(v.is_object(), "C02: an int dictionary must be written as a JSON object");
    assert!(side().len() == 2, "C02: write_int_dictionary dropped or duplicated an entry (a missing turn index reads back as -1, a missing visit count as 0)");
    assert!(written("a") == Some(x as i64), "C02: write_int_dictionary wrote a wrong value");
    assert!(written("b") == Some(y as i64), "C02: write_int_dictionary wrote a wrong value");
    kani::cover!(x == 0, "must: zero value");
    kani::cover!(x == -1 && y == i32::MAX, "must: extremes");
    std::mem::forget((m, v));
}

#[kani::proof]
#[kani::unwind(6)]
#[kani::stub(serde_json::Map::insert, stub_map_insert)]
fn int_dict_one_entry() {
    let x: i32 = kani::any();
    let mut m: HashMap<String, i32> = HashMap::new();
    m.insert("k".to_string(), x);
    let v = write_int_dictionary(&m);
    assert!(side().len() == 1 && written("k") == Some(x as i64), "C02: write_int_dictionary dropped an entry or wrote a wrong value");
    kani::cover!(x == 0, "must: zero value");
    std::mem::forget((m, v));
}

// write_ink_list: a list value in a save is {"list": {"Origin.item": value, ...}}: every item
// must be written under its full name with its value.
fn key_written(full: &[u8; 3]) -> Option<i64> {
    let s = side();
    let mut i = 0;
    let mut found: Option<i64> = None;
    let mut n = 0;
    while i < s.len() {
        let k = s[i].0.as_bytes();
        if k.len() == 3 && k[0] == full[0] && k[1] == full[1] && k[2] == full[2] {
            found = s[i].1.as_i64();
            n += 1;
        }
        i += 1;
    }
    if n == 1 { found } else { None }
}

#[kani::proof]
#[kani::unwind(8)]
#[kani::stub(serde_json::Map::insert, stub_map_insert)]
fn ink_list_write_two_items() {
    use crate::ink_list_item::InkListItem;
    let x: i32 = kani::any();
    let y: i32 = kani::any();
    let mut l = InkList::new();
    l.items.insert(InkListItem::new(Some("A".to_string()), "x".to_string()), x);
    l.items.insert(InkListItem::new(Some("B".to_string()), "x".to_string()), y);
    let v = write_ink_list(&l);
    assert!(v.is_object(), "C02: a list value must be written as a JSON object");
    // three inserts: the two items and the enclosing "list" key
    assert!(side().len() == 3, "C02: write_ink_list dropped or duplicated an item");
    assert!(key_written(b"A.x") == Some(x as i64), "C02: write_ink_list wrote item A.x under a wrong name or with a wrong value");
    assert!(key_written(b"B.x") == Some(y as i64), "C02: write_ink_list wrote item B.x under a wrong name or with a wrong value");
    kani::cover!(x == y, "must: equal item values in two origins");
    kani::cover!(x == 0, "must: zero value");
    std::mem::forget((l, v));
}

// write_choice: a pending choice in a save. The numeric fields (index, originalThreadIndex) are
// symbolic; text and paths are concrete.
fn str_written(key: &str) -> Option<&'static str> {
    let s = side();
    let mut i = 0;
    while i < s.len() {
        if s[i].0 == key {
            return s[i].1.as_str();
        }
        i += 1;
    }
    None
}
fn u64_written(key: &str) -> Option<u64> {
    let s = side();
    let mut i = 0;
    while i < s.len() {
        if s[i].0 == key {
            return s[i].1.as_u64();
        }
        i += 1;
    }
    None
}

#[kani::proof]
#[kani::unwind(24)]
#[kani::stub(serde_json::Map::insert, stub_map_insert)]
fn choice_write_indices() {
    let idx: usize = kani::any();
    let th: usize = kani::any();
    let c = Choice::new_from_json("0", "0.1".to_string(), "hi", idx, th, Vec::new());
    let v = write_choice(&c);
    assert!(v.is_object(), "C02: a choice must be written as a JSON object");
    assert!(u64_written("index") == Some(idx as u64), "C02: choice index not written as is");
    assert!(u64_written("originalThreadIndex") == Some(th as u64), "C02: choice originalThreadIndex not written as is");
    assert!(str_written("text") == Some("hi"), "C02: choice text not written as is");
    assert!(str_written("originalChoicePath") == Some("0.1"), "C02: choice originalChoicePath not written as is");
    assert!(str_written("targetPath") == Some("0"), "C02: choice targetPath not written as is");
    kani::cover!(idx == 3 && th == 1, "must: typical indices");
    std::mem::forget((c, v));
}

// The read-back half (write_choice -> jtoken_to_runtime_object with Map::get stubbed as well) was probed and
// does not finish (900 s): ~16 key probes over six entries plus Choice construction. Outside the claim.
