// Kani harnesses for rinklecate's JSON string escaping (C20). Child module of
// rinklecate/src/player.rs. Oracle: RFC 8259 section 7 — inside a JSON string no
// raw control character (< U+0020), no bare quote or backslash; escapes are
// \" \\ \/ \b \f \n \r \t or \uXXXX; and the escaped text must decode to the input.
#![allow(dead_code, unused_imports, clippy::all)]
use super::*;

pub(crate) fn stub_format(_args: core::fmt::Arguments<'_>) -> String {
    String::new()
}

fn hexval(b: u8) -> Option<u32> {
    match b {
        b'0'..=b'9' => Some((b - b'0') as u32),
        b'a'..=b'f' => Some((b - b'a') as u32 + 10),
        b'A'..=b'F' => Some((b - b'A') as u32 + 10),
        _ => None,
    }
}

/// Decode the body of a JSON string that encodes exactly ONE scalar value; None if it
/// is not a valid JSON string body or encodes something else than one character.
fn decode_one(b: &[u8]) -> Option<u32> {
    if b.is_empty() {
        return None;
    }
    if b[0] == b'\\' {
        if b.len() == 2 {
            return match b[1] {
                b'"' => Some(0x22),
                b'\\' => Some(0x5c),
                b'/' => Some(0x2f),
                b'b' => Some(8),
                b'f' => Some(12),
                b'n' => Some(10),
                b'r' => Some(13),
                b't' => Some(9),
                _ => None,
            };
        }
        if b.len() == 6 && b[1] == b'u' {
            let v = (hexval(b[2])? << 12) | (hexval(b[3])? << 8) | (hexval(b[4])? << 4) | hexval(b[5])?;
            if v >= 0xd800 && v <= 0xdfff {
                return None;
            }
            return Some(v);
        }
        return None;
    }
    // raw character: must be one well-formed UTF-8 scalar, not a control, quote or backslash
    let mut i = 0;
    while i < b.len() {
        if b[i] < 0x20 || b[i] == b'"' || b[i] == b'\\' {
            return None;
        }
        i += 1;
    }
    match b.len() {
        1 if b[0] < 0x80 => Some(b[0] as u32),
        2 if b[0] & 0xe0 == 0xc0 => Some(((b[0] as u32 & 0x1f) << 6) | (b[1] as u32 & 0x3f)),
        3 if b[0] & 0xf0 == 0xe0 => Some(((b[0] as u32 & 0x0f) << 12) | ((b[1] as u32 & 0x3f) << 6) | (b[2] as u32 & 0x3f)),
        4 if b[0] & 0xf8 == 0xf0 => {
            Some(((b[0] as u32 & 0x07) << 18) | ((b[1] as u32 & 0x3f) << 12) | ((b[2] as u32 & 0x3f) << 6) | (b[3] as u32 & 0x3f))
        }
        _ => None,
    }
}

// NOTE on construction: the input &str is always built from a byte array of CONCRETE
// length with symbolic contents. Building it with char::from_u32 + encode_utf8 makes the
// length symbolic, and String::with_capacity(s.len()) then allocates a symbolic size,
// which exhausts CBMC's memory (DESIGN.md E4).

fn run(bytes: &[u8], expect_cp: u32) {
    // SAFETY: callers constrain `bytes` to one or more well-formed UTF-8 sequences
    let s = unsafe { std::str::from_utf8_unchecked(bytes) };
    let out = escape_json_string(s);
    let d = decode_one(out.as_bytes());
    assert!(d.is_some(), "C20: escape_json_string emits text that is not a valid JSON string body (raw control character, quote or backslash)");
    assert!(d == Some(expect_cp), "C20: escape_json_string output does not decode back to the input character");
    std::mem::forget(out);
}

#[kani::proof]
#[kani::unwind(10)]
#[kani::stub(alloc::fmt::format, stub_format)]
fn esc_char_ascii_control() {
    // U+0000..U+001F: every one of them must be escaped
    let b: u8 = kani::any();
    kani::assume(b < 0x20);
    kani::cover!(b == b'\n', "must: newline");
    kani::cover!(b == 0x01, "must: control character without a short escape");
    kani::cover!(b == 0x0b, "must: vertical tab");
    run(&[b], b as u32);
}

#[kani::proof]
#[kani::unwind(10)]
#[kani::stub(alloc::fmt::format, stub_format)]
fn esc_char_ascii_printable() {
    // U+0020..U+007F: quote and backslash escaped, everything else unchanged
    let b: u8 = kani::any();
    kani::assume(b >= 0x20 && b < 0x80);
    kani::cover!(b == b'"', "must: quote");
    kani::cover!(b == b'\\', "must: backslash");
    kani::cover!(b == b'a', "must: plain letter");
    run(&[b], b as u32);
}

// a plain first character followed by any ASCII character: the second one is escaped as
// it would be alone (no state carried over from the first)
#[kani::proof]
#[kani::unwind(12)]
#[kani::stub(alloc::fmt::format, stub_format)]
fn esc_plain_then_any_ascii() {
    let b: u8 = kani::any();
    kani::assume(b < 0x80);
    let buf = [b'a', b];
    let s = unsafe { std::str::from_utf8_unchecked(&buf) };
    let out = escape_json_string(s);
    let o = out.as_bytes();
    assert!(o.len() >= 2 && o[0] == b'a', "C20: escape_json_string changed a plain leading character");
    assert!(decode_one(&o[1..]) == Some(b as u32), "C20: second character not escaped to a valid JSON string body");
    kani::cover!(b == 0x1f, "must: control character in second position");
    std::mem::forget(out);
}

// Probed and dropped (DESIGN.md E15): the same obligation for 2-, 3- and 4-byte characters, for
// two / three ASCII characters, and for any ASCII character followed by a plain one (600 s time-out). `String::push(c)` on a multi-byte `c`, and any push after the
// output length has become symbolic (second character), reserve a symbolic number of bytes and
// CBMC does not finish (300 s). Non-ASCII characters take the `c => out.push(c)` arm unchanged —
// by reading, not by the solver; outside the claim.
