// Kani harnesses for rinklecate's JSON string escaping (C20). Child module of
// rinklecate/src/player.rs. Oracle: RFC 8259 section 7 — inside a JSON string no
// raw control character (< U+0020), no bare quote or backslash; escapes are
// \" \\ \/ \b \f \n \r \t or \uXXXX; and the escaped text must decode to the input.
#![allow(dead_code, unused_imports, clippy::all)]
use super::*;

pub(crate) fn stub_format(_args: core::fmt::Arguments<'_>) -> String {
    String::new()
}

fn hexval(b: u8) -> Option<u32> {
    match b {
        b'0'..=b'9' => Some((b - b'0') as u32),
        b'a'..=b'f' => Some((b - b'a') as u32 + 10),
        b'A'..=b'F' => Some((b - b'A') as u32 + 10),
        _ => None,
    }
}

/// Decode the body of a JSON string that encodes exactly ONE scalar value; None if it
/// is not a valid JSON string body or encodes something else than one character.
fn decode_one(b: &[u8]) -> Option<u32> {
    if b.is_empty() {
        return None;
    }
    if b[0] == b'\\' {
        if b.len() == 2 {
            return match b[1] {
                b'"' => Some(0x22),
                b'\\' => Some(0x5c),
                b'/' => Some(0x2f),
                b'b' => Some(8),
                b'f' => Some(12),
                b'n' => Some(10),
                b'r' => Some(13),
                b't' => Some(9),
                _ => None,
            };
        }
        if b.len() == 6 && b[1] == b'u' {
            let v = (hexval(b[2])? << 12) | (hexval(b[3])? << 8) | (hexval(b[4])? << 4) | hexval(b[5])?;
            if v >= 0xd800 && v <= 0xdfff {
                return None;
            }
            return Some(v);
        }
        return None;
    }
    // raw character: must be one well-formed UTF-8 scalar, not a control, quote or backslash
    let mut i = 0;
    while i < b.len() {
        if b[i] < 0x20 || b[i] == b'"' || b[i] == b'\\' {
            return None;
        }
        i += 1;
    }
    match b.len() {
        1 if b[0] < 0x80 => Some(b[0] as u32),
        2 if b[0] & 0xe0 == 0xc0 => Some(((b[0] as u32 & 0x1f) << 6) | (b[1] as u32 & 0x3f)),
        3 if b[0] & 0xf0 == 0xe0 => Some(((b[0] as u32 & 0x0f) << 12) | ((b[1] as u32 & 0x3f) << 6) | (b[2] as u32 & 0x3f)),
        4 if b[0] & 0xf8 == 0xf0 => {
            Some(((b[0] as u32 & 0x07) << 18) | ((b[1] as u32 & 0x3f) << 12) | ((b[2] as u32 & 0x3f) << 6) | (b[3] as u32 & 0x3f))
        }
        _ => None,
    }
}

// NOTE on construction: the input &str is always built from a byte array of CONCRETE
// length with symbolic contents. Building it with char::from_u32 + encode_utf8 makes the
// length symbolic, and String::with_capacity(s.len()) then allocates a symbolic size,
// which exhausts CBMC's memory (DESIGN.md E4).

fn run(bytes: &[u8], expect_cp: u32) {
    // SAFETY: callers constrain `bytes` to one or more well-formed UTF-8 sequences
    let s = unsafe { std::str::from_utf8_unchecked(bytes) };
    let out = escape_json_string(s);
    let d = decode_one(out.as_bytes());
    assert!(d.is_some(), "C20: escape_json_string emits text that is not a valid JSON string body (raw control character, quote or backslash)");
    assert!(d == Some(expect_cp), "C20: escape_json_string output does not decode back to the input character");
    std::mem::forget(out);
}

#[kani::proof]
#[kani::unwind(10)]
#[kani::stub(alloc::fmt::format, stub_format)]
fn esc_char_ascii() {
    let b: u8 = kani::any();
    kani::assume(b < 0x80);
    kani::cover!(b == b'"', "must: quote");
    kani::cover!(b == 0x01, "must: control character");
    kani::cover!(b == b'a', "must: plain letter");
    run(&[b], b as u32);
}

#[kani::proof]
#[kani::unwind(10)]
#[kani::stub(alloc::fmt::format, stub_format)]
fn esc_char_two_byte() {
    let b0: u8 = kani::any();
    let b1: u8 = kani::any();
    kani::assume(b0 >= 0xc2 && b0 <= 0xdf && b1 >= 0x80 && b1 <= 0xbf);
    kani::cover!(b0 == 0xc3 && b1 == 0xa9, "must: e-acute");
    run(&[b0, b1], ((b0 as u32 & 0x1f) << 6) | (b1 as u32 & 0x3f));
}

#[kani::proof]
#[kani::unwind(10)]
#[kani::stub(alloc::fmt::format, stub_format)]
fn esc_char_three_byte() {
    let b0: u8 = kani::any();
    let b1: u8 = kani::any();
    let b2: u8 = kani::any();
    kani::assume(b0 >= 0xe0 && b0 <= 0xef && b1 >= 0x80 && b1 <= 0xbf && b2 >= 0x80 && b2 <= 0xbf);
    kani::assume(!(b0 == 0xe0 && b1 < 0xa0)); // overlong
    kani::assume(!(b0 == 0xed && b1 > 0x9f)); // surrogates
    kani::cover!(b0 == 0xe2 && b1 == 0x82 && b2 == 0xac, "must: euro sign");
    run(&[b0, b1, b2], ((b0 as u32 & 0x0f) << 12) | ((b1 as u32 & 0x3f) << 6) | (b2 as u32 & 0x3f));
}

#[kani::proof]
#[kani::unwind(10)]
#[kani::stub(alloc::fmt::format, stub_format)]
fn esc_char_four_byte() {
    let b0: u8 = kani::any();
    let b1: u8 = kani::any();
    let b2: u8 = kani::any();
    let b3: u8 = kani::any();
    kani::assume(b0 >= 0xf0 && b0 <= 0xf4 && b1 >= 0x80 && b1 <= 0xbf && b2 >= 0x80 && b2 <= 0xbf && b3 >= 0x80 && b3 <= 0xbf);
    kani::assume(!(b0 == 0xf0 && b1 < 0x90)); // overlong
    kani::assume(!(b0 == 0xf4 && b1 > 0x8f)); // beyond U+10FFFF
    kani::cover!(b0 == 0xf0 && b1 == 0x9f, "must: emoji plane");
    run(&[b0, b1, b2, b3],
        ((b0 as u32 & 0x07) << 18) | ((b1 as u32 & 0x3f) << 12) | ((b2 as u32 & 0x3f) << 6) | (b3 as u32 & 0x3f));
}

/// length of the first JSON character of an escaped body
fn first_len(o: &[u8]) -> usize {
    if !o.is_empty() && o[0] == b'\\' {
        if o.len() > 1 && o[1] == b'u' { 6 } else { 2 }
    } else {
        1
    }
}

// two / three ASCII characters: the output is the concatenation of valid one-character
// bodies that decode to the inputs in order (no state leaks between characters)
#[kani::proof]
#[kani::unwind(16)]
#[kani::stub(alloc::fmt::format, stub_format)]
fn esc_two_ascii() {
    let a: u8 = kani::any();
    let b: u8 = kani::any();
    kani::assume(a < 0x80 && b < 0x80);
    let buf = [a, b];
    let s = unsafe { std::str::from_utf8_unchecked(&buf) };
    let out = escape_json_string(s);
    let o = out.as_bytes();
    let n1 = first_len(o);
    assert!(o.len() > n1, "C20: escape_json_string lost a character");
    assert!(decode_one(&o[..n1]) == Some(a as u32), "C20: first of two characters not escaped to valid JSON");
    assert!(decode_one(&o[n1..]) == Some(b as u32), "C20: second of two characters not escaped to valid JSON");
    kani::cover!(a == b'\\' && b == b'"', "must: backslash then quote");
    std::mem::forget(out);
}

#[kani::proof]
#[kani::unwind(24)]
#[kani::stub(alloc::fmt::format, stub_format)]
fn esc_three_ascii() {
    let a: u8 = kani::any();
    let b: u8 = kani::any();
    let c: u8 = kani::any();
    kani::assume(a < 0x80 && b < 0x80 && c < 0x80);
    let buf = [a, b, c];
    let s = unsafe { std::str::from_utf8_unchecked(&buf) };
    let out = escape_json_string(s);
    let o = out.as_bytes();
    let n1 = first_len(o);
    assert!(o.len() > n1, "C20: escape_json_string lost a character");
    let n2 = first_len(&o[n1..]);
    assert!(o.len() > n1 + n2, "C20: escape_json_string lost a character");
    assert!(decode_one(&o[..n1]) == Some(a as u32), "C20: first of three characters not escaped to valid JSON");
    assert!(decode_one(&o[n1..n1 + n2]) == Some(b as u32), "C20: second of three characters not escaped to valid JSON");
    assert!(decode_one(&o[n1 + n2..]) == Some(c as u32), "C20: third of three characters not escaped to valid JSON");
    std::mem::forget(out);
}
