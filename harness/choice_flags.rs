// Kani harness for ChoicePoint flags (C02): the flags a choice point is written with
// are exactly the low five bits it was read with. Child module of choice_point.rs.
#![allow(dead_code, unused_imports, clippy::all)]
use super::*;

#[kani::proof]
#[kani::unwind(8)]
fn choice_flags_roundtrip() {
    let f: i32 = kani::any();
    let cp = ChoicePoint::new(f, "0");
    let w = cp.get_flags();
    assert!(w == (f & 31), "C02: choice point flags changed by read/write");
    assert!(cp.has_condition() == (f & 1 != 0), "C02: has_condition decoded wrongly");
    assert!(cp.has_start_content() == (f & 2 != 0), "C02: has_start_content decoded wrongly");
    assert!(cp.has_choice_only_content() == (f & 4 != 0), "C02: has_choice_only_content decoded wrongly");
    assert!(cp.is_invisible_default() == (f & 8 != 0), "C02: is_invisible_default decoded wrongly");
    assert!(cp.once_only() == (f & 16 != 0), "C02: once_only decoded wrongly");
    let cp2 = ChoicePoint::new(w, "0");
    assert!(cp2.get_flags() == w, "C02: written choice flags are not a fixed point");
    kani::cover!(w == 31, "must: all flags");
    kani::cover!(w == 0, "must: no flags");
    std::mem::forget((cp, cp2));
}
