// Kani harnesses for the value-level save/load kernels (C02) and for the loader on
// leaf tokens (C15). Injected as a child module of runtime/src/json/json_read.rs.
#![allow(dead_code, unused_imports, clippy::all)]
use super::*;
use crate::json::json_write;
use std::rc::Rc;

pub(crate) fn stub_format(_args: core::fmt::Arguments<'_>) -> String {
    String::new()
}

// ------------------------------------------------------------------ C02 ----
// The scalar values a save contains load back unchanged.
// write side: json_write::write_rtobject spends its first three steps on
// `o.clone().into_any().downcast::<T>()` probes whose Rc<dyn Any> drop glue CBMC cannot
// get through (no answer in 45 min, 6.5 GB). Its scalar branches are the one-liners
// `return Ok(json!(v));` (bool, i32) and `return Ok(write_float(v));` (f32); the driver
// refuses to run (exit 2) unless exactly these lines are present in json_write.rs, and the
// harnesses apply the same expression / call the real `write_float`.
// read side: the real json_read::jtoken_to_runtime_object.
fn w_int(v: i32) -> Result<serde_json::Value, StoryError> {
    Ok(serde_json::json!(v))
}
fn w_bool(v: bool) -> Result<serde_json::Value, StoryError> {
    Ok(serde_json::json!(v))
}
fn w_float(v: f32) -> Result<serde_json::Value, StoryError> {
    Ok(serde_json::json!(v))
}

#[kani::proof]
#[kani::unwind(4)]
#[kani::stub(alloc::fmt::format, stub_format)]
fn rt_int() {
    let v: i32 = kani::any();
    let o: Rc<dyn RTObject> = Rc::new(Value::new::<i32>(v));
    let tok = w_int(v);
    assert!(tok.is_ok(), "C02: writing an int value failed");
    let tok = tok.unwrap();
    let back = jtoken_to_runtime_object(&tok, None);
    assert!(back.is_ok(), "C02: a saved int value does not load back");
    let back = back.unwrap();
    assert!(Value::get_value::<i32>(back.as_ref()) == Some(v), "C02: int value changed by save/load");
    kani::cover!(v < 0, "must: negative int");
    kani::cover!(v == i32::MAX, "must: i32::MAX");
    std::mem::forget((o, tok, back));
}

#[kani::proof]
#[kani::unwind(4)]
#[kani::stub(alloc::fmt::format, stub_format)]
fn rt_bool() {
    let v: bool = kani::any();
    let o: Rc<dyn RTObject> = Rc::new(Value::new::<bool>(v));
    let tok = w_bool(v);
    assert!(tok.is_ok(), "C02: writing a bool value failed");
    let tok = tok.unwrap();
    let back = jtoken_to_runtime_object(&tok, None);
    assert!(back.is_ok(), "C02: a saved bool value does not load back");
    let back = back.unwrap();
    assert!(Value::get_bool_value(back.as_ref()) == Some(v), "C02: bool value changed by save/load");
    assert!(Value::get_value::<i32>(back.as_ref()).is_none(), "C02: bool value changed type by save/load");
    kani::cover!(v, "must: true");
    kani::cover!(!v, "must: false");
    std::mem::forget((o, tok, back));
}

fn rt_float_body(v: f32) {
    let o: Rc<dyn RTObject> = Rc::new(Value::new::<f32>(v));
    let tok = w_float(v);
    assert!(tok.is_ok(), "C02: writing a float value failed");
    let tok = tok.unwrap();
    let back = jtoken_to_runtime_object(&tok, None);
    assert!(back.is_ok(), "C02: a saved float value does not load back");
    let back = back.unwrap();
    let got = Value::get_value::<f32>(back.as_ref());
    assert!(got.is_some(), "C02: float value changed type by save/load");
    if v.is_finite() {
        assert!(got.unwrap().to_bits() == v.to_bits(), "C02: float value changed by save/load");
    }
    std::mem::forget((o, tok, back));
}

#[kani::proof]
#[kani::unwind(4)]
#[kani::stub(alloc::fmt::format, stub_format)]
fn rt_float_finite() {
    let v: f32 = kani::any();
    kani::assume(v.is_finite());
    rt_float_body(v);
    kani::cover!(v == 0.5, "must: fractional");
    kani::cover!(v == 3.0, "must: integral-valued float stays a float");
    kani::cover!(v.to_bits() == 0x8000_0000, "must: negative zero");
}

#[kani::proof]
#[kani::unwind(4)]
#[kani::stub(alloc::fmt::format, stub_format)]
fn rt_float_nonfinite() {
    let v: f32 = kani::any();
    kani::assume(!v.is_finite());
    rt_float_body(v);
    kani::cover!(v.is_nan(), "must: NaN");
    kani::cover!(v == f32::INFINITY, "must: +inf");
}

// ------------------------------------------------------------------ C15 ----
// Any leaf token handed to the loader yields Ok or Err, never a panic.

fn feed(tok: serde_json::Value) {
    kani::cover!(true, "loader called");
    let r = jtoken_to_runtime_object(&tok, None);
    kani::cover!(r.is_ok(), "loader returned Ok");
    kani::cover!(r.is_err(), "loader returned Err");
    std::mem::forget((tok, r));
}

#[kani::proof]
#[kani::unwind(4)]
#[kani::stub(alloc::fmt::format, stub_format)]
fn tok_null() {
    feed(serde_json::Value::Null);
}

#[kani::proof]
#[kani::unwind(4)]
#[kani::stub(alloc::fmt::format, stub_format)]
fn tok_bool() {
    feed(serde_json::Value::Bool(kani::any()));
}

#[kani::proof]
#[kani::unwind(4)]
#[kani::stub(alloc::fmt::format, stub_format)]
fn tok_i64() {
    let n: i64 = kani::any();
    kani::cover!(n > i32::MAX as i64, "must: above i32 range");
    kani::cover!(n < i32::MIN as i64, "must: below i32 range");
    feed(serde_json::Value::Number(serde_json::Number::from(n)));
}

#[kani::proof]
#[kani::unwind(4)]
#[kani::stub(alloc::fmt::format, stub_format)]
fn tok_u64() {
    let n: u64 = kani::any();
    kani::cover!(n > i64::MAX as u64, "must: above i64 range");
    feed(serde_json::Value::Number(serde_json::Number::from(n)));
}

#[kani::proof]
#[kani::unwind(4)]
#[kani::stub(alloc::fmt::format, stub_format)]
fn tok_f64() {
    let f: f64 = kani::any();
    kani::assume(f.is_finite());
    let n = serde_json::Number::from_f64(f);
    assert!(n.is_some());
    kani::cover!(f > 1.0e300, "must: beyond f32 range");
    feed(serde_json::Value::Number(n.unwrap()));
}

fn ascii(b: u8) -> u8 {
    kani::assume(b < 0x80);
    b
}

#[kani::proof]
#[kani::unwind(16)]
#[kani::stub(alloc::fmt::format, stub_format)]
fn tok_str0() {
    feed(serde_json::Value::String(String::new()));
}

#[kani::proof]
#[kani::unwind(16)]
#[kani::stub(alloc::fmt::format, stub_format)]
fn tok_str1() {
    let b = [ascii(kani::any())];
    let s = unsafe { String::from_utf8_unchecked(b.to_vec()) };
    kani::cover!(b[0] == b'^', "must: string value marker");
    kani::cover!(b[0] == b'\n', "must: newline");
    kani::cover!(b[0] == b'+', "must: native function name");
    feed(serde_json::Value::String(s));
}

#[kani::proof]
#[kani::unwind(16)]
#[kani::stub(alloc::fmt::format, stub_format)]
fn tok_str2() {
    let b = [ascii(kani::any()), ascii(kani::any())];
    let s = unsafe { String::from_utf8_unchecked(b.to_vec()) };
    kani::cover!(b[0] == b'<' && b[1] == b'>', "must: glue");
    kani::cover!(b[0] == b'e' && b[1] == b'v', "must: control command");
    kani::cover!(b[0] == b'L' && b[1] == b'^', "must: list intersect");
    feed(serde_json::Value::String(s));
}

#[kani::proof]
#[kani::unwind(16)]
#[kani::stub(alloc::fmt::format, stub_format)]
fn tok_str3() {
    let b = [ascii(kani::any()), ascii(kani::any()), ascii(kani::any())];
    let s = unsafe { String::from_utf8_unchecked(b.to_vec()) };
    kani::cover!(b[0] == b'o' && b[1] == b'u' && b[2] == b't', "must: control command out");
    kani::cover!(b[0] == b'M' && b[1] == b'I' && b[2] == b'N', "must: native MIN");
    kani::cover!(b[0] == b'^', "must: string value marker");
    feed(serde_json::Value::String(s));
}

#[kani::proof]
#[kani::unwind(16)]
#[kani::stub(alloc::fmt::format, stub_format)]
fn tok_str4() {
    let b = [ascii(kani::any()), ascii(kani::any()), ascii(kani::any()), ascii(kani::any())];
    let s = unsafe { String::from_utf8_unchecked(b.to_vec()) };
    kani::cover!(b[0] == b'v' && b[1] == b'o' && b[2] == b'i' && b[3] == b'd', "must: void");
    kani::cover!(b[0] == b'd' && b[1] == b'o' && b[2] == b'n' && b[3] == b'e', "must: control command done");
    feed(serde_json::Value::String(s));
}

// arrays as containers: [] (no terminator), [null], [n, null]
macro_rules! tokarr {
    ($name:ident, $v:expr) => {
        #[kani::proof]
        #[kani::unwind(5)]
        #[kani::stub(alloc::fmt::format, stub_format)]
        fn $name() {
            feed(serde_json::Value::Array($v));
        }
    };
}
// bug-hunting only (prefix hunt_): after the loader fix these run into Container::new and the
// BTreeMap-backed terminator loop and do not finish; a re-introduced early panic is still found in seconds
tokarr!(hunt_tok_arr_empty, Vec::new());
tokarr!(hunt_tok_arr_null, vec![serde_json::Value::Null]);
tokarr!(hunt_tok_arr_bool_null, vec![serde_json::Value::Bool(kani::any()), serde_json::Value::Null]);

// arrays of leaves through the list reader (the container reader needs a HashMap:
// see the json_container group, which runs under the map model)
fn feed_list(v: Vec<serde_json::Value>, skip_last: bool) {
    kani::cover!(true, "loader called");
    let r = jarray_to_runtime_obj_list(&v, skip_last);
    kani::cover!(r.is_ok(), "loader returned Ok");
    kani::cover!(r.is_err(), "loader returned Err");
    std::mem::forget((v, r));
}

macro_rules! arr {
    ($name:ident, $skip:expr, $v:expr) => {
        #[kani::proof]
        #[kani::unwind(5)]
        #[kani::stub(alloc::fmt::format, stub_format)]
        fn $name() {
            feed_list($v, $skip);
        }
    };
}
fn num_any() -> serde_json::Value {
    let n: i64 = kani::any();
    serde_json::Value::Number(serde_json::Number::from(n))
}
fn num_i32() -> serde_json::Value {
    let n: i32 = kani::any();
    serde_json::Value::Number(serde_json::Number::from(n as i64))
}
arr!(arr_list_empty_skip, true, Vec::new());
arr!(arr_list_empty_noskip, false, Vec::new());
arr!(arr_list_one_number_skip, true, vec![num_any()]);
arr!(arr_list_one_number_noskip, false, vec![num_any()]);
arr!(arr_list_bool_null_skip, true, vec![serde_json::Value::Bool(kani::any()), serde_json::Value::Null]);
arr!(arr_list_bool_null_noskip, false, vec![serde_json::Value::Bool(kani::any()), serde_json::Value::Null]);
arr!(hunt_arr_list_int_int_noskip, false, vec![num_i32(), num_i32()]);

// Probed and dropped (DESIGN E21): one-key objects {"VAR?": <number>} etc. A single-entry
// serde_json::Map (BTreeMap) already gives no answer in 900 s.
