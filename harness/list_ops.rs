// Kani harnesses for the list kernels (C03 order independence, C07 list algebra,
// C04 no-panic on list operands). Injected as a child module of
// runtime/src/ink_list.rs in the MODEL-MAP scratch copy: HashMap/HashSet are the
// association list /verif/overlay/verif_map.rs whose iteration order is insertion
// order, so "every iteration order" = "every insertion order", which the
// harnesses enumerate explicitly.
//
// Universe: LIST A = x, y   LIST B = x, z   with SYMBOLIC item values v[0..4]
// (every tie pattern, negative values, extremes); the item NAME x is deliberately
// declared in both lists. Item index: A.x=0 A.y=1 B.x=2 B.z=3 (harness names use
// a b c d for 0 1 2 3).
// List membership (shape) and insertion order are concrete per harness instance.
#![allow(dead_code, unused_imports, unused_variables, clippy::all)]
use super::*;
use crate::native_function_call::{NativeFunctionCall, Op};
use crate::object::RTObject;
use crate::value::Value;
use std::rc::Rc;

pub(crate) fn stub_format(_args: core::fmt::Arguments<'_>) -> String {
    String::new()
}

include!("list_common.rs");

// =========================================================================
// C03: results must not depend on the insertion (= iteration) order
// =========================================================================
fn tie_cover(u: &U, shape: &[usize]) {
    let mut tie = false;
    let mut p = 0;
    while p < shape.len() {
        let mut q = p + 1;
        while q < shape.len() {
            if u.v[shape[p]] == u.v[shape[q]] {
                tie = true;
            }
            q += 1;
        }
        p += 1;
    }
    kani::cover!(tie, "must: tie among item values");
    kani::cover!(!tie, "must: all values distinct");
}

// get_max_item / get_min_item: which ITEM is reported (LIST_MAX, LIST_MIN, list->string)
fn c03_maxmin(shape: &[usize], permuted: &[usize]) {
    let u = any_u();
    tie_cover(&u, shape);
    let l1 = mk(&u, shape, 0);
    let l2 = mk(&u, permuted, 0);
    let mx1 = l1.get_max_item().map(|(k, _)| code(k));
    let mx2 = l2.get_max_item().map(|(k, _)| code(k));
    assert!(mx1 == mx2, "C03: the maximum item of a list (LIST_MAX, LIST_VALUE, list->string) depends on map iteration order");
    let mn1 = l1.get_min_item().map(|(k, _)| code(k));
    let mn2 = l2.get_min_item().map(|(k, _)| code(k));
    assert!(mn1 == mn2, "C03: the minimum item of a list (LIST_MIN) depends on map iteration order");
    std::mem::forget((l1, l2));
}

// max_as_list / min_as_list: the single-item lists LIST_MAX / LIST_MIN return
fn c03_maxlist(shape: &[usize], permuted: &[usize]) {
    let u = any_u();
    tie_cover(&u, shape);
    let l1 = mk(&u, shape, 0);
    let l2 = mk(&u, permuted, 0);
    let r1 = l1.max_as_list();
    let r2 = l2.max_as_list();
    assert!(r1.items.len() == 1 && r2.items.len() == 1, "C07: LIST_MAX of a non-empty list must hold exactly one item");
    let c1 = r1.items.iter().next().map(|(k, v)| (code(k), *v));
    let c2 = r2.items.iter().next().map(|(k, v)| (code(k), *v));
    assert!(c1 == c2, "C03: LIST_MAX result depends on map iteration order");
    let s1 = l1.min_as_list();
    let s2 = l2.min_as_list();
    assert!(s1.items.len() == 1 && s2.items.len() == 1, "C07: LIST_MIN of a non-empty list must hold exactly one item");
    let d1 = s1.items.iter().next().map(|(k, v)| (code(k), *v));
    let d2 = s2.items.iter().next().map(|(k, v)| (code(k), *v));
    assert!(d1 == d2, "C03: LIST_MIN result depends on map iteration order");
    std::mem::forget((l1, l2, r1, r2, s1, s2));
}

// get_ordered_items: the order in which a list prints its items
fn c03_ordered(shape: &[usize], permuted: &[usize]) {
    let u = any_u();
    tie_cover(&u, shape);
    let l1 = mk(&u, shape, 0);
    let l2 = mk(&u, permuted, 0);
    let o1 = l1.get_ordered_items();
    let o2 = l2.get_ordered_items();
    assert!(o1.len() == o2.len() && o1.len() == shape.len(), "C07: printing a list must list every item once");
    let mut k = 0;
    while k < o1.len() {
        assert!(code(o1[k].0) == code(o2[k].0), "C03: the printed order of list items depends on map iteration order");
        k += 1;
    }
    std::mem::forget((o1, o2));
    std::mem::forget((l1, l2));
}

// numeric casts go through the max item (value only: ties cannot matter, checked anyway)
fn c03_cast(shape: &[usize], permuted: &[usize]) {
    let u = any_u();
    tie_cover(&u, shape);
    let c1 = Value::new::<InkList>(mk(&u, shape, 0)).cast(1);
    let c2 = Value::new::<InkList>(mk(&u, permuted, 0)).cast(1);
    match (&c1, &c2) {
        (Ok(Some(x)), Ok(Some(y))) => {
            let xi = if let ValueType::Int(i) = x.value { Some(i) } else { None };
            let yi = if let ValueType::Int(i) = y.value { Some(i) } else { None };
            assert!(xi.is_some() && xi == yi, "C03: list->int cast depends on map iteration order");
            assert!(xi == ref_max(&u, mask_from(shape)), "C07: list->int cast must be the maximum item value");
        }
        _ => assert!(false, "C07: list->int cast failed"),
    }
    std::mem::forget((c1, c2));
}

// ListDefinition::get_item_with_value with the declaration inserted in both orders
fn c03_item_with_value(which: usize) {
    let u = any_u();
    let d1 = def(&u, which, false);
    let d2 = def(&u, which, true);
    let x: i32 = kani::any();
    let r1 = d1.get_item_with_value(x).map(|i| code(&i));
    let r2 = d2.get_item_with_value(x).map(|i| code(&i));
    assert!(r1 == r2, "C03: the item a LIST declaration reports for a value (list +/- int, list-from-int) depends on map iteration order");
    let (i, j) = if which == 0 { (0, 1) } else { (2, 3) };
    kani::cover!(u.v[i] == u.v[j] && x == u.v[i], "must: two items declared with the same value");
    kani::cover!(r1.is_none(), "must: no item with that value");
    std::mem::forget((d1, d2));
}

// =========================================================================
// C07: list algebra = set semantics over the declared lists (InkList methods, the
// functions the native operators delegate to; the operator dispatch itself is
// checked in native_list.rs)
// =========================================================================
fn c07_set(kind: u8, a: &[usize], b: &[usize], ea: u8, eb: u8) {
    let u = any_u();
    let la = mk(&u, a, ea);
    let lb = mk(&u, b, eb);
    let (ma, mb) = (mask_from(a), mask_from(b));
    let (r, exp) = match kind {
        0 => (la.union(&lb), ma | mb),
        1 => (la.without(&lb), ma & !mb),
        _ => (la.intersect(&lb), ma & mb),
    };
    assert!(mask_of(&r) == Some(exp), "C07: list union/difference/intersection differs from the set-algebra result");
    assert!(values_ok(&u, &r), "C07: list operation changed an item's value");
    kani::cover!(true, "reached");
    std::mem::forget((la, lb, r));
}

fn c07_rel(kind: u8, a: &[usize], b: &[usize]) {
    let u = any_u();
    let la = mk(&u, a, 0);
    let lb = mk(&u, b, 0);
    let (ma, mb) = (mask_from(a), mask_from(b));
    let (got, exp) = match kind {
        0 => (la.contains(&lb), ma != 0 && mb != 0 && (ma & mb) == mb),
        1 => (la == lb, ma == mb),
        2 => (la.greater_than(&lb), if ma == 0 { false } else if mb == 0 { true } else { ref_min(&u, ma).unwrap() > ref_max(&u, mb).unwrap() }),
        3 => (la.less_than(&lb), if mb == 0 { false } else if ma == 0 { true } else { ref_max(&u, ma).unwrap() < ref_min(&u, mb).unwrap() }),
        4 => (la.greater_than_or_equals(&lb), if ma == 0 { false } else if mb == 0 { true } else {
            ref_min(&u, ma).unwrap() >= ref_min(&u, mb).unwrap() && ref_max(&u, ma).unwrap() >= ref_max(&u, mb).unwrap()
        }),
        _ => (la.less_than_or_equals(&lb), if mb == 0 { false } else if ma == 0 { true } else {
            ref_max(&u, ma).unwrap() <= ref_max(&u, mb).unwrap() && ref_min(&u, ma).unwrap() <= ref_min(&u, mb).unwrap()
        }),
    };
    assert!(got == exp, "C07: list containment/equality/comparison differs from Ink's rule");
    kani::cover!(got, "relation can hold");
    kani::cover!(!got, "relation can fail");
    std::mem::forget((la, lb));
}

fn c07_all_invert(a: &[usize], ea: u8) {
    let u = any_u();
    let l = mk(&u, a, ea);
    let ma = mask_from(a);
    let all = l.get_all();
    let inv = l.inverse();
    let om = origin_mask_of_items(ma, ea);
    assert!(mask_of(&all) == Some(om), "C07: LIST_ALL differs from the union of the list's origin declarations");
    assert!(mask_of(&inv) == Some(om & !ma), "C07: LIST_INVERT differs from origin items not in the list");
    assert!(values_ok(&u, &all) && values_ok(&u, &inv), "C07: LIST_ALL/LIST_INVERT changed an item's value");
    kani::cover!(true, "reached");
    std::mem::forget((l, all, inv));
}

// LIST_INVERT with a cheap result check (size and identity of the first item only): the full
// mask comparison above is the expensive part and runs out of memory on some mutants of inverse()
fn c07_invert_size(a: &[usize]) {
    let u = any_u();
    let l = mk(&u, a, 0);
    let ma = mask_from(a);
    let exp = origin_mask_of_items(ma, 0) & !ma;
    let inv = l.inverse();
    assert!(inv.items.len() as i32 == popcount(exp), "C07: LIST_INVERT differs from origin items not in the list (wrong number of items)");
    if let Some((k, v)) = inv.items.iter().next() {
        let c = code(k);
        let mut ok = false;
        let mut i = 0;
        while i < 4 {
            if exp & (1 << i) != 0 && c == code_of_index(i) && *v == u.v[i] {
                ok = true;
            }
            i += 1;
        }
        assert!(ok, "C07: LIST_INVERT returned an item that is in the list or not in its origins");
    }
    kani::cover!(u.v[0] == u.v[2], "must: equal values in two origins");
    kani::cover!(u.v[0] == u.v[1], "must: equal values in one origin");
    std::mem::forget((l, inv));
}

// LIST_RANGE kernel: list_with_sub_range(min, max) with int bounds
fn c07_sub_range_int(a: &[usize]) {
    let u = any_u();
    let lo: i32 = kani::any();
    let hi: i32 = kani::any();
    let l = mk(&u, a, 0);
    let r = l.list_with_sub_range(&ValueType::Int(lo), &ValueType::Int(hi));
    let ma = mask_from(a);
    let mut exp = 0u8;
    let mut i = 0;
    while i < 4 {
        if ma & (1 << i) != 0 && u.v[i] >= lo && u.v[i] <= hi {
            exp |= 1 << i;
        }
        i += 1;
    }
    assert!(mask_of(&r) == Some(exp), "C07: LIST_RANGE with int bounds differs from the items with lo <= value <= hi");
    assert!(values_ok(&u, &r), "C07: LIST_RANGE changed an item's value");
    kani::cover!(exp != 0 && exp != ma, "must: proper non-empty sub-range");
    std::mem::forget((l, r));
}

// LIST_RANGE with list bounds: min bound = min value of the bound list, max bound = its max value
fn c07_sub_range_list(a: &[usize], lo: &[usize], hi: &[usize]) {
    let u = any_u();
    let l = mk(&u, a, 0);
    let lo_l = mk(&u, lo, 0);
    let hi_l = mk(&u, hi, 0);
    let r = l.list_with_sub_range(&ValueType::List(lo_l), &ValueType::List(hi_l));
    let ma = mask_from(a);
    let lo_v = ref_min(&u, mask_from(lo)).unwrap_or(0);
    let hi_v = ref_max(&u, mask_from(hi)).unwrap_or(i32::MAX);
    let mut exp = 0u8;
    let mut i = 0;
    while i < 4 {
        if ma & (1 << i) != 0 && u.v[i] >= lo_v && u.v[i] <= hi_v {
            exp |= 1 << i;
        }
        i += 1;
    }
    assert!(mask_of(&r) == Some(exp), "C07: LIST_RANGE with list bounds differs from Ink's rule");
    std::mem::forget((l, r));
}

// =========================================================================
// C04: list helpers reachable from story content never panic
// =========================================================================
// an item without origin (what `{"list":{"x":1}}` / a bare list item name loads as)
fn orphan_list(v: i32) -> InkList {
    let mut l = InkList::new();
    l.items.insert(InkListItem::from_full_name("q"), v);
    l
}
fn body_orphan_origin_names() {
    let l = orphan_list(kani::any());
    let names = l.get_origin_names();
    kani::cover!(true, "reached");
    std::mem::forget((l, names));
}
fn body_orphan_retain() {
    // assignment of an empty list over a variable that held an origin-less item
    let old = Value::new::<InkList>(orphan_list(kani::any()));
    let new = Value::new::<InkList>(InkList::new());
    Value::retain_list_origins_for_assignment(&old, &new);
    kani::cover!(true, "reached");
    std::mem::forget((old, new));
}
macro_rules! h {
    ($name:ident, $unw:expr, $body:expr) => {
        #[kani::proof]
        #[kani::unwind($unw)]
        #[kani::stub(alloc::fmt::format, stub_format)]
        fn $name() {
            $body
        }
    };
}

include!("list_ops_instances.rs");
