// Kani harness for the container count flags as written to / read from a save or
// story file (C02). Injected as a child module of runtime/src/container.rs.
#![allow(dead_code, unused_imports, clippy::all)]
use super::*;

// A container built from flags f reports get_count_flags() == canonical(f), and
// reading that value back yields the same three behaviour bits wherever they matter:
// visits/turns exactly, count-at-start-only whenever visits or turns are counted.
#[kani::proof]
#[kani::unwind(4)]
fn count_flags_roundtrip() {
    let f: i32 = kani::any();
    let (v, t, s) = Container::split_count_flags(f);
    assert!(v == (f & 1 != 0), "C02: visits flag decoded wrongly");
    assert!(t == (f & 2 != 0), "C02: turns flag decoded wrongly");
    assert!(s == (f & 4 != 0), "C02: count-start-only flag decoded wrongly");
    let c = Container {
        obj: Object::new(),
        content: Vec::new(),
        named_content: HashMap::new(),
        name: None,
        visits_should_be_counted: v,
        turn_index_should_be_counted: t,
        counting_at_start_only: s,
    };
    let w = c.get_count_flags();
    assert!(w >= 0 && w <= 7, "C02: written count flags out of range");
    let (v2, t2, s2) = Container::split_count_flags(w);
    assert!(v2 == v && t2 == t, "C02: visit/turn counting flags changed by write/read");
    assert!(!(v || t) || s2 == s, "C02: count-at-start-only flag changed by write/read");
    // (that a non-counting container is written as 0 is a storage optimisation, not part of the property)
    kani::cover!(v && t && s, "must: all flags");
    kani::cover!(!v && !t && s, "must: start-only alone");
    std::mem::forget(c);
}
