// Kani harnesses for Story::calculate_newline_output_state_change (C01: the line-end
// decision of the look-ahead mechanism). Injected as a child module of
// runtime/src/story/progress.rs.
//
// prev/curr are borrowed ASCII byte slices of symbolic length <= N with symbolic
// contents; tag counts are symbolic i32. Obligations:
//   * no panic (the `as_bytes()[prev.len() - 1]` index, `prev.len() - 1` underflow)
//   * result equals the declarative restatement of the rule below.
#![allow(dead_code, unused_imports, clippy::all)]
use super::*;
use crate::story::OutputStateChange;

// Declarative restatement (from the Ink reference engine's documentation of the
// look-ahead): the remembered newline "still exists" iff prev is non-empty, curr is
// at least as long and curr has '\n' exactly where prev ended. If it does not:
// NewlineRemoved. Otherwise the line has been extended beyond the newline iff a tag
// was added or some byte of curr after prev's end is not a space or tab. Otherwise
// nothing changed.
fn oracle(prev: &[u8], curr: &[u8], pt: i32, ct: i32) -> u8 {
    let exists = !prev.is_empty() && curr.len() >= prev.len() && curr[prev.len() - 1] == b'\n';
    if !exists {
        return 2; // NewlineRemoved
    }
    let mut non_ws_added = false;
    let mut i = prev.len();
    while i < curr.len() {
        if curr[i] != b' ' && curr[i] != b'\t' {
            non_ws_added = true;
        }
        i += 1;
    }
    if ct > pt || non_ws_added {
        // same length and same tag count is NoChange by the first rule; with equal
        // length nothing was added, so only a tag can extend
        return 1; // ExtendedBeyondNewline
    }
    0 // NoChange
}

fn code(c: OutputStateChange) -> u8 {
    match c {
        OutputStateChange::NoChange => 0,
        OutputStateChange::ExtendedBeyondNewline => 1,
        OutputStateChange::NewlineRemoved => 2,
    }
}

fn run<const N: usize>() {
    let a: [u8; N] = kani::any();
    let b: [u8; N] = kani::any();
    let la: usize = kani::any();
    let lb: usize = kani::any();
    kani::assume(la <= N && lb <= N);
    let mut i = 0;
    while i < N {
        kani::assume(a[i] < 0x80 && b[i] < 0x80);
        i += 1;
    }
    let pt: i32 = kani::any();
    let ct: i32 = kani::any();
    // SAFETY: all bytes are ASCII, hence valid UTF-8.
    let prev = unsafe { std::str::from_utf8_unchecked(&a[..la]) };
    let curr = unsafe { std::str::from_utf8_unchecked(&b[..lb]) };
    let got = code(Story::calculate_newline_output_state_change(prev, curr, pt, ct));
    let exp = oracle(&a[..la], &b[..lb], pt, ct);
    assert!(got == exp, "C01: line-end decision differs from the look-ahead rule");
    kani::cover!(got == 0, "must: NoChange reachable");
    kani::cover!(got == 1, "must: ExtendedBeyondNewline reachable");
    kani::cover!(got == 2, "must: NewlineRemoved reachable");
    kani::cover!(got == 0 && lb > la, "must: NoChange with trailing whitespace added");
}

#[kani::proof]
#[kani::unwind(5)]
fn nl_len_le_3() {
    run::<3>();
}

#[kani::proof]
#[kani::unwind(8)]
fn nl_len_le_6() {
    run::<6>();
}

#[kani::proof]
#[kani::unwind(12)]
fn nl_len_le_10() {
    run::<10>();
}

// prev and curr share a symbolic common prefix (the realistic situation: curr is
// prev plus appended output), so longer texts stay cheap: prefix P <= 8 bytes,
// prev = prefix, curr = prefix + up to 8 appended bytes.
#[kani::proof]
#[kani::unwind(18)]
fn nl_append_8_8() {
    const P: usize = 8;
    const A: usize = 8;
    let mut buf: [u8; P + A] = kani::any();
    let lp: usize = kani::any();
    let la: usize = kani::any();
    kani::assume(lp <= P && la <= A);
    let mut i = 0;
    while i < P + A {
        kani::assume(buf[i] < 0x80);
        i += 1;
    }
    let pt: i32 = kani::any();
    let ct: i32 = kani::any();
    let prev_owned: [u8; P] = {
        let mut p = [0u8; P];
        let mut j = 0;
        while j < P {
            p[j] = buf[j];
            j += 1;
        }
        p
    };
    let _ = &mut buf;
    let prev = unsafe { std::str::from_utf8_unchecked(&prev_owned[..lp]) };
    let curr = unsafe { std::str::from_utf8_unchecked(&buf[..lp + la]) };
    let got = code(Story::calculate_newline_output_state_change(prev, curr, pt, ct));
    let exp = oracle(&prev_owned[..lp], &buf[..lp + la], pt, ct);
    assert!(got == exp, "C01: line-end decision differs from the look-ahead rule");
    kani::cover!(got == 1 && ct == pt, "must: extended by text only");
    kani::cover!(got == 0 && la > 0, "must: whitespace-only extension");
}

#[kani::proof]
#[kani::unwind(18)]
fn nl_len_le_16() {
    run::<16>();
}
