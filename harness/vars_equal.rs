// Kani harness for VariablesState::val_equal (C02): a global is omitted from a save exactly
// when val_equal(current, default) holds, and a missing global is restored from the default
// on load — so val_equal must only hold for values that are indistinguishable.
// Child module of runtime/src/variables_state.rs (model-map scratch copy: the state holds maps).
#![allow(dead_code, unused_imports, clippy::all)]
use super::*;
use crate::container::Container;

fn mk_vs() -> VariablesState {
    let c = Container::new(None, 0, Vec::new(), HashMap::new());
    let cs = Rc::new(RefCell::new(CallStack::new(c)));
    let mut defs = Vec::new();
    let ld = Rc::new(ListDefinitionsOrigin::new(&mut defs));
    VariablesState::new(cs, ld)
}

#[kani::proof]
#[kani::unwind(6)]
fn val_equal_float() {
    let vs = mk_vs();
    let a: f32 = kani::any();
    let b: f32 = kani::any();
    let (va, vb) = (Value::new::<f32>(a), Value::new::<f32>(b));
    let eq = vs.val_equal(&va, &vb);
    kani::cover!(eq, "must: some floats compare equal");
    kani::cover!(!eq, "must: some floats compare different");
    assert!(!eq || a.to_bits() == b.to_bits(),
        "C02: a float global that differs from its default is treated as equal to it: it is dropped from the save and comes back as the default");
    // (the converse — identical values must be recognised as default — is a storage optimisation, not
    // part of the property: writing a global that equals its default is harmless)
    std::mem::forget((vs, va, vb));
}

#[kani::proof]
#[kani::unwind(6)]
fn val_equal_int_bool() {
    let vs = mk_vs();
    let a: i32 = kani::any();
    let b: i32 = kani::any();
    let (va, vb) = (Value::new::<i32>(a), Value::new::<i32>(b));
    assert!(!vs.val_equal(&va, &vb) || a == b, "C02: an int global that differs from its default is treated as equal to it (it would be dropped from the save)");
    let p: bool = kani::any();
    let q: bool = kani::any();
    let (vp, vq) = (Value::new::<bool>(p), Value::new::<bool>(q));
    assert!(!vs.val_equal(&vp, &vq) || p == q, "C02: a bool global that differs from its default is treated as equal to it (it would be dropped from the save)");
    kani::cover!(a == b, "must: equal ints");
    std::mem::forget((vs, va, vb, vp, vq));
}

// a value never equals a default of another type (1 vs 1.0 vs true): the type is part of the value
#[kani::proof]
#[kani::unwind(6)]
fn val_equal_cross_type() {
    let vs = mk_vs();
    let i: i32 = kani::any();
    let f: f32 = kani::any();
    let b: bool = kani::any();
    let (vi, vf, vb) = (Value::new::<i32>(i), Value::new::<f32>(f), Value::new::<bool>(b));
    assert!(!vs.val_equal(&vi, &vf) && !vs.val_equal(&vf, &vi), "C02: int and float global/default compared equal");
    assert!(!vs.val_equal(&vi, &vb) && !vs.val_equal(&vb, &vi), "C02: int and bool global/default compared equal");
    assert!(!vs.val_equal(&vf, &vb) && !vs.val_equal(&vb, &vf), "C02: float and bool global/default compared equal");
    kani::cover!(i == 1 && f == 1.0 && b, "must: 1, 1.0, true");
    std::mem::forget((vs, vi, vf, vb));
}
