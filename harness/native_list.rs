// Kani harnesses for the native operators on LIST operands (C07 list algebra as the
// evaluator dispatches it, C04 no-panic, C03 list +/- int). Child module of
// runtime/src/native_function_call.rs in the MODEL-MAP scratch copy (see list_ops.rs).
//
// Entry points, cheapest first:
//   call_type(Vec<Rc<Value>>)           operator dispatch + the List arm of every *_op
//   call_list_increment_operation(..)   list +/- int
//   call(Vec<Rc<dyn RTObject>>)         full entry (void check, list detection, the
//                                       into_any().downcast() of call_binary_list_operation)
// The full entry is used where the property is about it (void operands, list mixed
// with scalars); its Rc<dyn Any> drop glue makes it the most expensive for CBMC.
#![allow(dead_code, unused_imports, unused_variables, clippy::all)]
use super::*;
use crate::ink_list_item::InkListItem;
use crate::list_definition::ListDefinition;
use crate::verif_map::HashMap;
use std::rc::Rc;

pub(crate) fn stub_format(_args: core::fmt::Arguments<'_>) -> String {
    String::new()
}

include!("list_common.rs");

#[derive(Clone, Copy, PartialEq)]
enum Exp {
    Mask(u8),
    Bool(bool),
    Int(i32),
    /// single item with this value that is a member of the mask (ties: any of them), or empty
    OneWithValue(Option<i32>, u8),
}

fn ref_binary(op: Op, u: &U, a: u8, b: u8) -> Option<Exp> {
    Some(match op {
        Op::Add => Exp::Mask(a | b),
        Op::Subtract => Exp::Mask(a & !b),
        Op::Intersect => Exp::Mask(a & b),
        Op::Has => Exp::Bool(a != 0 && b != 0 && (a & b) == b),
        Op::Hasnt => Exp::Bool(!(a != 0 && b != 0 && (a & b) == b)),
        Op::Equal => Exp::Bool(a == b),
        Op::NotEquals => Exp::Bool(a != b),
        Op::Greater => Exp::Bool(if a == 0 { false } else if b == 0 { true } else { ref_min(u, a).unwrap() > ref_max(u, b).unwrap() }),
        Op::Less => Exp::Bool(if b == 0 { false } else if a == 0 { true } else { ref_max(u, a).unwrap() < ref_min(u, b).unwrap() }),
        Op::GreaterThanOrEquals => Exp::Bool(if a == 0 { false } else if b == 0 { true } else {
            ref_min(u, a).unwrap() >= ref_min(u, b).unwrap() && ref_max(u, a).unwrap() >= ref_max(u, b).unwrap()
        }),
        Op::LessThanOrEquals => Exp::Bool(if b == 0 { false } else if a == 0 { true } else {
            ref_max(u, a).unwrap() <= ref_max(u, b).unwrap() && ref_min(u, a).unwrap() <= ref_min(u, b).unwrap()
        }),
        Op::And => Exp::Bool(a != 0 && b != 0),
        Op::Or => Exp::Bool(a != 0 || b != 0),
        _ => return None,
    })
}

fn ref_unary(op: Op, u: &U, a: u8, empty_origins: u8) -> Option<Exp> {
    Some(match op {
        Op::Count => Exp::Int(popcount(a)),
        Op::ValueOfList => Exp::Int(ref_max(u, a).unwrap_or(0)),
        Op::ListMax => Exp::OneWithValue(ref_max(u, a), a),
        Op::ListMin => Exp::OneWithValue(ref_min(u, a), a),
        Op::All => Exp::Mask(origin_mask_of_items(a, empty_origins)),
        Op::Invert => Exp::Mask(origin_mask_of_items(a, empty_origins) & !a),
        Op::Not => Exp::Int(if a == 0 { 1 } else { 0 }),
        _ => return None,
    })
}

fn tv(l: InkList) -> Rc<Value> {
    Rc::new(Value::new::<InkList>(l))
}

// ---- C07: operator dispatch on typed list operands ---------------------------
// The set algebra itself is decided on the InkList methods (list_ops.rs); here the
// question is only that each operator reaches the right method with the operands in the
// right order and wraps the result in the right type, so the result check is kept cheap:
// for list results the item count and, for a single-item result, which item it is.
fn check_dispatch(u: &U, r: &Result<Rc<dyn RTObject>, StoryError>, exp: Option<Exp>) {
    match (r, exp) {
        (Err(_), None) => {
            kani::cover!(true, "returned Err");
        }
        (Err(_), Some(_)) => assert!(false, "C07: list operation returned Err where Ink defines a value"),
        (Ok(_), None) => assert!(false, "C07: list operation returned a value where Ink defines none"),
        (Ok(o), Some(e)) => {
            kani::cover!(true, "returned Ok");
            match e {
                Exp::Mask(m) => {
                    let l = as_list(o);
                    assert!(l.is_some(), "C07: list operation must return a list");
                    let l = l.unwrap();
                    assert!(l.items.len() as i32 == popcount(m), "C07: list operator returned a list of the wrong size (wrong set operation or operand order)");
                    if popcount(m) == 1 {
                        let (k, v) = l.items.iter().next().unwrap();
                        let mut i = 0;
                        while i < 4 {
                            if m == 1 << i {
                                assert!(code(k) == code_of_index(i) && *v == u.v[i], "C07: list operator returned the wrong item");
                            }
                            i += 1;
                        }
                    }
                }
                Exp::Bool(b) => assert!(Value::get_bool_value(o.as_ref()) == Some(b), "C07: list comparison/test differs from Ink's rule"),
                Exp::Int(i) => assert!(Value::get_value::<i32>(o.as_ref()) == Some(i), "C07: list count/value differs from Ink's rule"),
                Exp::OneWithValue(v, _members) => {
                    let l = as_list(o);
                    assert!(l.is_some(), "C07: LIST_MIN/LIST_MAX must return a list");
                    let l = l.unwrap();
                    match v {
                        None => assert!(l.items.len() == 0, "C07: LIST_MIN/LIST_MAX of an empty list must be empty"),
                        Some(v) => {
                            assert!(l.items.len() == 1, "C07: LIST_MIN/LIST_MAX must return exactly one item");
                            let (_, val) = l.items.iter().next().unwrap();
                            assert!(*val == v, "C07: LIST_MIN/LIST_MAX returned an item that is not extreme");
                        }
                    }
                }
            }
        }
    }
}

fn c07_binary(op: Op, a: &[usize], b: &[usize], ea: u8, eb: u8) {
    let u = any_u();
    // the harness keeps its own Rc to each operand: the drop of the parameter vector inside
    // call_type is then a plain reference-count decrement
    let (x, y) = (tv(mk(&u, a, ea)), tv(mk(&u, b, eb)));
    let r = NativeFunctionCall::new(op).call_type(vec![x.clone(), y.clone()]);
    check_dispatch(&u, &r, ref_binary(op, &u, mask_from(a), mask_from(b)));
    std::mem::forget((r, x, y));
}

fn c07_unary(op: Op, a: &[usize], ea: u8) {
    let u = any_u();
    let x = tv(mk(&u, a, ea));
    let r = NativeFunctionCall::new(op).call_type(vec![x.clone()]);
    check_dispatch(&u, &r, ref_unary(op, &u, mask_from(a), ea));
    std::mem::forget((r, x));
}

// ---- list +/- int --------------------------------------------------------------
fn incr(op: Op, l: InkList, n: i32) -> Rc<Value> {
    let params: [Rc<dyn RTObject>; 2] = [Rc::new(Value::new::<InkList>(l)), Rc::new(Value::new::<i32>(n))];
    let r = NativeFunctionCall::new(op).call_list_increment_operation(&params);
    std::mem::forget(params);
    r
}

// every member moves to the item of ITS OWN origin whose value is value +/- n, if any.
// Oracle needs distinct values inside an origin (otherwise the target is ambiguous: C03).
fn c07_increment(a: &[usize], add: bool) {
    let u = any_u();
    let n: i32 = kani::any();
    kani::assume(n > -4 && n < 4);
    let mut i = 0;
    while i < 4 {
        kani::assume(u.v[i] > -1000 && u.v[i] < 1000);
        i += 1;
    }
    kani::assume(u.v[0] != u.v[1] && u.v[2] != u.v[3]);
    let r = incr(if add { Op::Add } else { Op::Subtract }, mk(&u, a, 0), n);
    let ma = mask_from(a);
    let mut exp = 0u8;
    let mut i = 0;
    while i < 4 {
        if ma & (1 << i) != 0 {
            let t = if add { u.v[i] + n } else { u.v[i] - n };
            let (lo, hi) = if i < 2 { (0, 2) } else { (2, 4) };
            let mut j = lo;
            while j < hi {
                if u.v[j] == t {
                    exp |= 1 << j;
                }
                j += 1;
            }
        }
        i += 1;
    }
    let l = match &r.value {
        ValueType::List(l) => l,
        _ => {
            assert!(false, "C07: list +/- int must yield a list");
            return;
        }
    };
    assert!(mask_of(l) == Some(exp), "C07: list +/- int differs from shifting every item inside its own LIST");
    assert!(values_ok(&u, l), "C07: list +/- int stored a wrong item value");
    kani::cover!(exp != 0, "must: some item moved");
    std::mem::forget(r);
}

// C03: the same list built in two insertion orders, declarations with equal values allowed
fn c03_increment(shape: &[usize], permuted: &[usize], add: bool) {
    let u = any_u();
    let n: i32 = kani::any();
    kani::assume(n > -4 && n < 4);
    let mut i = 0;
    while i < 4 {
        kani::assume(u.v[i] > -1000 && u.v[i] < 1000);
        i += 1;
    }
    kani::cover!(u.v[0] == u.v[1], "must: two items of one LIST declared with the same value");
    let op = if add { Op::Add } else { Op::Subtract };
    let r1 = incr(op, mk(&u, shape, 0), n);
    let r2 = incr(op, mk(&u, permuted, 0), n);
    match (&r1.value, &r2.value) {
        (ValueType::List(a), ValueType::List(b)) => {
            let ma = mask_of(a);
            let mb = mask_of(b);
            assert!(ma.is_some() && mb.is_some(), "C07: list +/- int must yield a list over the declared items");
            assert!(ma == mb, "C03: list +/- int depends on map iteration order");
        }
        _ => assert!(false, "C07: list +/- int must yield a list"),
    }
    std::mem::forget((r1, r2));
}

// C04: value +/- n over the full i32 range must wrap, not panic
fn c04_increment_full(a: &[usize], add: bool) {
    let u = any_u();
    let n: i32 = kani::any();
    let r = incr(if add { Op::Add } else { Op::Subtract }, mk(&u, a, 0), n);
    kani::cover!(true, "returned");
    std::mem::forget(r);
}

// an item without origin (what `{"list":{"x":1}}` / a bare list item name loads as)
fn orphan_list(v: i32) -> InkList {
    let mut l = InkList::new();
    l.items.insert(InkListItem::from_full_name("q"), v);
    l
}
fn c04_orphan_unary(op: Op) {
    let x = tv(orphan_list(kani::any()));
    let r = NativeFunctionCall::new(op).call_type(vec![x.clone()]);
    std::mem::forget(x);
    kani::cover!(r.is_ok(), "returned Ok");
    kani::cover!(r.is_err(), "returned Err");
    std::mem::forget(r);
}
fn body_orphan_increment() {
    let n: i32 = kani::any();
    kani::assume(n > -3 && n < 3);
    let v: i32 = kani::any();
    kani::assume(v > -100 && v < 100);
    let r = incr(Op::Add, orphan_list(v), n);
    kani::cover!(true, "returned");
    std::mem::forget(r);
}

// ---- full entry: NativeFunctionCall::call ---------------------------------------
// list (op) void / void (op) list: a function that forgot `~ return` leaves Void on the
// evaluation stack; every operator must report an error, never panic
fn c04_list_void(op: Op, a: &[usize], list_first: bool) {
    let u = any_u();
    let l = lv(mk(&u, a, 0));
    let v: Rc<dyn RTObject> = Rc::new(crate::void::Void::new());
    let r = NativeFunctionCall::new(op).call(if list_first { vec![l, v] } else { vec![v, l] });
    kani::cover!(true, "call returned");
    assert!(r.is_err(), "C04: an operator applied to a void operand must report a story error");
    std::mem::forget(r);
}
// list (op) scalar for operators that have no list/scalar meaning: Err, not panic
fn c04_list_scalar(op: Op, a: &[usize], float: bool) {
    let u = any_u();
    let s: Rc<dyn RTObject> = if float { Rc::new(Value::new::<f32>(kani::any())) } else { Rc::new(Value::new::<i32>(kani::any())) };
    let r = NativeFunctionCall::new(op).call(vec![lv(mk(&u, a, 0)), s]);
    kani::cover!(r.is_ok(), "returned Ok");
    kani::cover!(r.is_err(), "returned Err");
    std::mem::forget(r);
}
// one full-entry instance per dispatch route, so that the route itself is covered
fn c07_call_binary(op: Op, a: &[usize], b: &[usize]) {
    let u = any_u();
    let r = NativeFunctionCall::new(op).call(vec![lv(mk(&u, a, 0)), lv(mk(&u, b, 0))]);
    check_dispatch(&u, &r, ref_binary(op, &u, mask_from(a), mask_from(b)));
    std::mem::forget(r);
}
fn c07_call_unary(op: Op, a: &[usize]) {
    let u = any_u();
    let r = NativeFunctionCall::new(op).call(vec![lv(mk(&u, a, 0))]);
    check_dispatch(&u, &r, ref_unary(op, &u, mask_from(a), 0));
    std::mem::forget(r);
}

macro_rules! h {
    ($name:ident, $unw:expr, $body:expr) => {
        #[kani::proof]
        #[kani::unwind($unw)]
        #[kani::stub(alloc::fmt::format, stub_format)]
        fn $name() {
            $body
        }
    };
}

include!("native_list_instances.rs");
