// Kani harnesses for the streaming loader's tokenizer (C14). Child module of
// runtime/src/json/json_tokenizer.rs. JSON (RFC 8259) is the oracle: what the
// default loader (serde_json) yields for the same text.
#![allow(dead_code, unused_imports, clippy::all)]
use super::*;

pub(crate) fn stub_format(_args: core::fmt::Arguments<'_>) -> String {
    String::new()
}

fn read_str_of(bytes: &[u8]) -> io::Result<String> {
    // SAFETY: callers only pass valid UTF-8 (ASCII, or an explicitly well-formed sequence)
    let s = unsafe { std::str::from_utf8_unchecked(bytes) };
    let mut t = JsonTokenizer::new_from_str(s);
    t.read_string()
}

fn single(r: &io::Result<String>) -> Option<u32> {
    match r {
        Ok(s) => {
            let b = s.as_bytes();
            if b.len() == 1 { Some(b[0] as u32) } else { None }
        }
        Err(_) => None,
    }
}

// "\c" for every two-character escape JSON defines
#[kani::proof]
#[kani::unwind(8)]
#[kani::stub(alloc::fmt::format, stub_format)]
fn esc_simple() {
    let c: u8 = kani::any();
    let exp: u32 = match c {
        b'"' => 0x22,
        b'\\' => 0x5c,
        b'/' => 0x2f,
        b'b' => 0x08,
        b'f' => 0x0c,
        b'n' => 0x0a,
        b'r' => 0x0d,
        b't' => 0x09,
        _ => {
            kani::assume(false);
            0
        }
    };
    let buf = [b'"', b'\\', c, b'"'];
    let r = read_str_of(&buf);
    assert!(r.is_ok(), "C14: streaming tokenizer rejects a valid JSON escape");
    assert!(single(&r) == Some(exp), "C14: streaming tokenizer decodes a JSON escape differently from JSON (serde) — text would differ between the two loaders");
    kani::cover!(c == b't', "must: tab escape");
    kani::cover!(c == b'n', "must: newline escape");
    kani::cover!(c == b'/', "must: solidus escape");
    std::mem::forget(r);
}

fn hex(d: u8) -> u8 {
    // d in 0..16 -> ASCII hex digit, upper or lower case chosen by the solver
    if d < 10 {
        b'0' + d
    } else if kani::any() {
        b'a' + (d - 10)
    } else {
        b'A' + (d - 10)
    }
}

// "\uXXXX" for every BMP code point that is not a surrogate and encodes in <= 2 UTF-8 bytes
// (<= 0x7ff keeps the result String short; 3-byte results are the esc_u4_wide harness)
fn esc_u4_body(lo: u32, hi: u32) {
    let cp: u32 = kani::any();
    kani::assume(cp >= lo && cp <= hi);
    kani::assume(!(cp >= 0xd800 && cp <= 0xdfff));
    let d = [((cp >> 12) & 15) as u8, ((cp >> 8) & 15) as u8, ((cp >> 4) & 15) as u8, (cp & 15) as u8];
    let buf = [b'"', b'\\', b'u', hex(d[0]), hex(d[1]), hex(d[2]), hex(d[3]), b'"'];
    let r = read_str_of(&buf);
    assert!(r.is_ok(), "C14: streaming tokenizer rejects a valid \\u escape");
    let s = r.as_ref().unwrap();
    let mut it = s.chars();
    let first = it.next();
    assert!(first.map(|c| c as u32) == Some(cp) && it.next().is_none(),
        "C14: streaming tokenizer decodes a \\uXXXX escape differently from JSON (serde)");
    std::mem::forget(r);
}

#[kani::proof]
#[kani::unwind(10)]
#[kani::stub(alloc::fmt::format, stub_format)]
fn esc_u4_ascii() {
    esc_u4_body(0, 0x7f);
}

#[kani::proof]
#[kani::unwind(10)]
#[kani::stub(alloc::fmt::format, stub_format)]
fn esc_u4_latin() {
    esc_u4_body(0x80, 0x7ff);
}

#[kani::proof]
#[kani::unwind(10)]
#[kani::stub(alloc::fmt::format, stub_format)]
fn esc_u4_wide() {
    esc_u4_body(0x800, 0xffff);
}

// an unescaped ASCII character is passed through unchanged
#[kani::proof]
#[kani::unwind(8)]
#[kani::stub(alloc::fmt::format, stub_format)]
fn plain_ascii() {
    let c: u8 = kani::any();
    kani::assume(c >= 0x20 && c < 0x80 && c != b'"' && c != b'\\');
    let buf = [b'"', c, b'"'];
    let r = read_str_of(&buf);
    assert!(single(&r) == Some(c as u32), "C14: streaming tokenizer changes an unescaped character");
    kani::cover!(c == b' ', "must: space is kept inside strings");
    std::mem::forget(r);
}

// a two-byte UTF-8 character is passed through unchanged
#[kani::proof]
#[kani::unwind(8)]
#[kani::stub(alloc::fmt::format, stub_format)]
fn plain_two_byte_utf8() {
    let b0: u8 = kani::any();
    let b1: u8 = kani::any();
    kani::assume(b0 >= 0xc2 && b0 <= 0xdf && b1 >= 0x80 && b1 <= 0xbf);
    let buf = [b'"', b0, b1, b'"'];
    let r = read_str_of(&buf);
    assert!(r.is_ok(), "C14: streaming tokenizer rejects a valid two-byte UTF-8 character");
    let b = r.as_ref().unwrap().as_bytes();
    assert!(b.len() == 2 && b[0] == b0 && b[1] == b1, "C14: streaming tokenizer changes a two-byte UTF-8 character");
    std::mem::forget(r);
}

// escape followed by a plain character: "\cX" keeps X (no swallowing after an escape)
#[kani::proof]
#[kani::unwind(8)]
#[kani::stub(alloc::fmt::format, stub_format)]
fn esc_then_plain() {
    let x: u8 = kani::any();
    kani::assume(x >= 0x20 && x < 0x80 && x != b'"' && x != b'\\');
    let buf = [b'"', b'\\', b'n', x, b'"'];
    let r = read_str_of(&buf);
    assert!(r.is_ok());
    let b = r.as_ref().unwrap().as_bytes();
    assert!(b.len() == 2 && b[0] == b'\n' && b[1] == x, "C14: character after an escape is lost or changed");
    std::mem::forget(r);
}

// Number conversions used by the streaming reader: as_integer / as_float / is_integer
#[kani::proof]
#[kani::unwind(4)]
fn number_int_conversions() {
    let n: i32 = kani::any();
    let v = Number::Int(n);
    assert!(v.is_integer(), "C14: an integer token must be an integer");
    assert!(v.as_integer() == Some(n), "C14: integer token value changed");
    // serde side: as_f64() as f32 on an integer JSON number
    assert!(v.as_float().map(|f| f.to_bits()) == Some(((n as i64) as f64 as f32).to_bits()), "C14: integer token read as float differs from the default loader");
    kani::cover!(n == i32::MIN, "must: i32::MIN");
}

#[kani::proof]
#[kani::unwind(4)]
fn number_float_conversions() {
    let f: f32 = kani::any();
    let v = Number::Float(f);
    assert!(!v.is_integer(), "C14: a float token must not be an integer");
    assert!(v.as_float().map(|x| x.to_bits()) == Some(f.to_bits()) || f != f, "C14: float token value changed");
    kani::cover!(f == 0.5, "must: fractional");
}
