#!/bin/bash
# seed_check.sh <seed-id> <PROPERTY> [vcheck args...] : apply a seeded change to /repo, run a check, undo it straight afterwards
ID=$1; shift
cd /repo || exit 2
if [ -n "$(git status --porcelain)" ]; then echo "/repo not clean"; exit 2; fi
git apply /verif/seeded/$ID/patch.diff || { echo "patch does not apply"; exit 2; }
trap 'git -C /repo checkout -- . ' EXIT
cd /verif && VERIF_EVIDENCE_DIR=/tmp/seed-evidence VERIF_REPLAY_DIR=/verif/seeded/$ID/replays ./vcheck "$@"
echo "exit=$?"
