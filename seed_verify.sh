#!/bin/bash
# seed_verify.sh <seed-id> <worktree> <demo_test_file.rs> : confirm a seeded change myself and store it under /verif/seeded/<id>
# (1) patch applies to a clean checkout of /repo HEAD, (2) suite passes with it, (3) demo fails with it, (4) demo passes without it
set -u
ID=$1; WT=$2; DEMO=$3; PKG=${4:-conformance-tests}
OUT=/verif/seeded/$ID; mkdir -p $OUT
export CARGO_TARGET_DIR=$WT/target CARGO_NET_OFFLINE=true
cd $WT || exit 2
cp seed_out/patch.diff $OUT/patch.diff
cp seed_out/$DEMO $OUT/ 2>/dev/null
cp seed_out/notes.md $OUT/agent_notes.md 2>/dev/null
for f in seed_out/*.ink; do [ -f "$f" ] && cp "$f" $OUT/; done
T=$(basename $DEMO .rs)
# clean state = /repo HEAD
git checkout -q -- . ; git clean -fdq -e seed_out -e target
BASE=$(git -C /repo rev-parse HEAD); git checkout -q --detach $BASE 2>/dev/null
echo "base=$BASE" > $OUT/verify.log
git apply --check $OUT/patch.diff >> $OUT/verify.log 2>&1 || { echo "PATCH-DOES-NOT-APPLY" | tee -a $OUT/verify.log; exit 1; }
# demo without change
cp $OUT/$DEMO $PKG/tests/$DEMO
cargo test -p $PKG --test $T --offline > $OUT/demo_without.log 2>&1; R0=$?
git apply $OUT/patch.diff
cargo test -p $PKG --test $T --offline > $OUT/demo_with.log 2>&1; R1=$?
rm $PKG/tests/$DEMO
cargo test --workspace --no-fail-fast --offline > $OUT/suite_with.log 2>&1; R2=$?
P=$(grep -E "^test result" $OUT/suite_with.log | awk '{p+=$4;f+=$6} END{print p" passed "f" failed"}')
echo "demo_without_change exit=$R0 (want 0); demo_with_change exit=$R1 (want !=0); suite_with_change exit=$R2 ($P) (want 0)" | tee -a $OUT/verify.log
git checkout -q -- . 
[ $R0 -eq 0 ] && [ $R1 -ne 0 ] && [ $R2 -eq 0 ] && echo CONFIRMED | tee -a $OUT/verify.log
