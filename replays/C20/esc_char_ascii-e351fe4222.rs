// VCHECK-REPLAY {"property": "C20", "group": "cli_escape", "harness": "esc_char_ascii", "check": "\"\"C20: escape_json_string emits text that is not a valid JSON string body (raw control character, quote or backslash)\"\"", "test": "kani_concrete_playback_esc_char_ascii_17623998948057357451", "values": ["31"], "site": null, "native": {"dev": "failed", "release": "failed"}, "real_hashmap": null, "how": "/verif/vcheck --replay /verif/replays/C20/esc_char_ascii-e351fe4222.rs"}
/// Test generated for harness `player::verif_kani_cli_escape::esc_char_ascii` 
///
/// Check for `assertion`: ""C20: escape_json_string emits text that is not a valid JSON string body (raw control character, quote or backslash)""
///
/// # Warning
///
/// Concrete playback tests combined with stubs or contracts is highly
/// experimental, and subject to change.
///
/// The original harness has stubs which are not applied to this test.
/// This may cause a mismatch of non-deterministic values if the stub
/// creates any non-deterministic value.
/// The execution path may also differ, which can be used to refine the stub
/// logic.

#[test]
fn kani_concrete_playback_esc_char_ascii_17623998948057357451() {
    let concrete_vals: Vec<Vec<u8>> = vec![
        // 31
        vec![31],
    ];
    kani::concrete_playback_run(concrete_vals, esc_char_ascii);
}
