// VCHECK-REPLAY {"property": "C04", "group": "native_scalar", "harness": "nsv_divide_ii16", "check": "\"attempt to divide by zero\"", "test": "kani_concrete_playback_nsv_divide_ii16_7663825758370579301", "values": ["-1", "0"], "site": {"function": "<bladeink::native_function_call::NativeFunctionCall>::divide_op", "at": "./src/native_function_call.rs:611:69", "line_text": "ValueType::Int(op2) => Ok(Rc::new(Value::new::<i32>(op1 / op2))),"}, "native": {"dev": "failed", "release": "failed"}, "how": "/verif/vcheck --replay /verif/replays/C04/nsv_divide_ii16-7b9faf00bf.rs"}
/// Test generated for harness `native_function_call::verif_kani_native_scalar::nsv_divide_ii16` 
///
/// Check for `assertion`: "attempt to divide by zero"
///
/// # Warning
///
/// Concrete playback tests combined with stubs or contracts is highly
/// experimental, and subject to change.
///
/// The original harness has stubs which are not applied to this test.
/// This may cause a mismatch of non-deterministic values if the stub
/// creates any non-deterministic value.
/// The execution path may also differ, which can be used to refine the stub
/// logic.

#[test]
fn kani_concrete_playback_nsv_divide_ii16_7663825758370579301() {
    let concrete_vals: Vec<Vec<u8>> = vec![
        // -1
        vec![255, 255],
        // 0
        vec![0, 0],
    ];
    kani::concrete_playback_run(concrete_vals, nsv_divide_ii16);
}
