// VCHECK-REPLAY {"property": "C04", "group": "list_ops", "harness": "c04_orphan_origin_names", "check": "\"called `Option::unwrap()` on a `None` value\"", "test": "kani_concrete_playback_c04_orphan_origin_names_14351050180283684151", "values": ["0"], "site": {"function": "<bladeink::ink_list::InkList>::get_origin_names", "at": "./src/ink_list.rs:117:48", "line_text": "names.push(k.get_origin_name().unwrap().clone());"}, "native": {"dev": "failed", "release": "failed"}, "real_hashmap": {"runs": 8, "failed": 8}, "how": "/verif/vcheck --replay /verif/replays/C04/c04_orphan_origin_names-889b966cb4.rs"}
/// Test generated for harness `ink_list::verif_kani_list_ops::c04_orphan_origin_names` 
///
/// Check for `assertion`: "called `Option::unwrap()` on a `None` value"
///
/// # Warning
///
/// Concrete playback tests combined with stubs or contracts is highly
/// experimental, and subject to change.
///
/// The original harness has stubs which are not applied to this test.
/// This may cause a mismatch of non-deterministic values if the stub
/// creates any non-deterministic value.
/// The execution path may also differ, which can be used to refine the stub
/// logic.

#[test]
fn kani_concrete_playback_c04_orphan_origin_names_14351050180283684151() {
    let concrete_vals: Vec<Vec<u8>> = vec![
        // 0
        vec![0, 0, 0, 0],
    ];
    kani::concrete_playback_run(concrete_vals, c04_orphan_origin_names);
}
