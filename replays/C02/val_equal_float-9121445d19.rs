// VCHECK-REPLAY {"property": "C02", "group": "vars_equal", "harness": "val_equal_float", "check": "\"\"C02: a float global that differs from its default is treated as equal to it: it is dropped from the save and comes back as the default\"\"", "test": "kani_concrete_playback_val_equal_float_16458671674308725150", "values": ["-0", "0"], "site": null, "native": {"dev": "failed", "release": "failed"}, "real_hashmap": {"runs": 8, "failed": 8}, "how": "/verif/vcheck --replay /verif/replays/C02/val_equal_float-9121445d19.rs"}
/// Test generated for harness `variables_state::verif_kani_vars_equal::val_equal_float` 
///
/// Check for `assertion`: ""C02: a float global that differs from its default is treated as equal to it: it is dropped from the save and comes back as the default""

#[test]
fn kani_concrete_playback_val_equal_float_16458671674308725150() {
    let concrete_vals: Vec<Vec<u8>> = vec![
        // -0
        vec![0, 0, 0, 128],
        // 0
        vec![0, 0, 0, 0],
    ];
    kani::concrete_playback_run(concrete_vals, val_equal_float);
}
