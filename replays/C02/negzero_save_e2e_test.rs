use bladeink::story::Story;
use bladeink_compiler::Compiler;

#[test]
fn negative_zero_survives_save_load() {
    let ink = "VAR x = 0.0\n~ x = x * -1\nStart.\n* [go]\n  x is {x}\n  -> END\n";
    let json = Compiler::new().compile(ink).unwrap();
    let mut s = Story::new(&json).unwrap();
    s.continue_maximally().unwrap();
    let saved = s.save_state().unwrap();
    let mut t = Story::new(&json).unwrap();
    t.load_state(&saved).unwrap();
    s.choose_choice_index(0).unwrap();
    t.choose_choice_index(0).unwrap();
    let a = s.continue_maximally().unwrap();
    let b = t.continue_maximally().unwrap();
    assert_eq!(a, b, "saved state: {}", saved);
}
