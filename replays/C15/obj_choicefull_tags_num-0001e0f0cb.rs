// VCHECK-REPLAY {"property": "C15", "group": "json_object", "harness": "obj_choicefull_tags_num", "check": "called `Option::unwrap()` on a `None` value", "test": "kani_concrete_playback_obj_choicefull_tags_num_8145676938405627224", "values": ["0", "0", "0"], "site": {"function": "bladeink::json::json_read::jarray_to_tags", "at": "./src/json/json_read.rs:451:40", "line_text": "let tags_array = pv.as_array().unwrap();"}, "native": {"dev": "failed", "release": "failed"}, "real_hashmap": {"runs": 8, "failed": 8}, "how": "/verif/vcheck --replay /verif/replays/C15/obj_choicefull_tags_num-0001e0f0cb.rs"}
/// Test generated for harness `json::json_read::verif_kani_json_object::obj_choicefull_tags_num` 
///
/// Check for `cover`: "loader called"
///
/// # Warning
///
/// Concrete playback tests combined with stubs or contracts is highly
/// experimental, and subject to change.
///
/// The original harness has stubs which are not applied to this test.
/// This may cause a mismatch of non-deterministic values if the stub
/// creates any non-deterministic value.
/// The execution path may also differ, which can be used to refine the stub
/// logic.

#[test]
fn kani_concrete_playback_obj_choicefull_tags_num_8145676938405627224() {
    let concrete_vals: Vec<Vec<u8>> = vec![
        // 0
        vec![0, 0, 0, 0, 0, 0, 0, 0],
        // 0
        vec![0, 0, 0, 0, 0, 0, 0, 0],
        // 0
        vec![0, 0, 0, 0, 0, 0, 0, 0],
    ];
    kani::concrete_playback_run(concrete_vals, obj_choicefull_tags_num);
}
