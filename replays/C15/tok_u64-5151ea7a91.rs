// VCHECK-REPLAY {"property": "C15", "group": "json_value", "harness": "tok_u64", "check": "\"This is a placeholder message; Kani doesn't support message formatted at runtime\"", "test": "kani_concrete_playback_tok_u64_359395384963320879", "values": ["4611686018427387904ul"], "site": {"function": "bladeink::json::json_read::jtoken_to_runtime_object", "at": "./src/json/json_read.rs:103:67", "line_text": "let val: i32 = token.as_i64().unwrap().try_into().unwrap();"}, "native": {"dev": "failed", "release": "failed"}, "real_hashmap": {"runs": 8, "failed": 8}, "how": "/verif/vcheck --replay /verif/replays/C15/tok_u64-5151ea7a91.rs"}
/// Test generated for harness `json::json_read::verif_kani_json_value::tok_u64` 
///
/// Check for `assertion`: "This is a placeholder message; Kani doesn't support message formatted at runtime"
///
/// # Warning
///
/// Concrete playback tests combined with stubs or contracts is highly
/// experimental, and subject to change.
///
/// The original harness has stubs which are not applied to this test.
/// This may cause a mismatch of non-deterministic values if the stub
/// creates any non-deterministic value.
/// The execution path may also differ, which can be used to refine the stub
/// logic.

#[test]
fn kani_concrete_playback_tok_u64_359395384963320879() {
    let concrete_vals: Vec<Vec<u8>> = vec![
        // 4611686018427387904ul
        vec![0, 0, 0, 0, 0, 0, 0, 64],
    ];
    kani::concrete_playback_run(concrete_vals, tok_u64);
}
