// VCHECK-REPLAY {"property": "C15", "group": "json_object", "harness": "obj_temp_assign_null", "check": "\"called `Option::unwrap()` on a `None` value\"", "test": "kani_concrete_playback_obj_temp_assign_null_1635661507347808862", "values": [], "site": {"function": "bladeink::json::json_read::jtoken_to_runtime_object", "at": "./src/json/json_read.rs:303:61", "line_text": "let var_name = prop_value.unwrap().as_str().unwrap();"}, "native": {"dev": "failed", "release": "failed"}, "real_hashmap": {"runs": 8, "failed": 8}, "how": "/verif/vcheck --replay /verif/replays/C15/obj_temp_assign_null-dc6b4cf8be.rs"}
/// Test generated for harness `json::json_read::verif_kani_json_object::obj_temp_assign_null` 
///
/// Check for `assertion`: "called `Option::unwrap()` on a `None` value"
///
/// # Warning
///
/// Concrete playback tests combined with stubs or contracts is highly
/// experimental, and subject to change.
///
/// The original harness has stubs which are not applied to this test.
/// This may cause a mismatch of non-deterministic values if the stub
/// creates any non-deterministic value.
/// The execution path may also differ, which can be used to refine the stub
/// logic.

#[test]
fn kani_concrete_playback_obj_temp_assign_null_1635661507347808862() {
    let concrete_vals: Vec<Vec<u8>> = vec![
    ];
    kani::concrete_playback_run(concrete_vals, obj_temp_assign_null);
}
