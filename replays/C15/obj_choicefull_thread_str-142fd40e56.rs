// VCHECK-REPLAY {"property": "C15", "group": "json_object", "harness": "obj_choicefull_thread_str", "check": "\"called `Option::unwrap()` on a `None` value\"", "test": "kani_concrete_playback_obj_choicefull_thread_str_148405654450834310", "values": ["0"], "site": {"function": "bladeink::json::json_read::jobject_to_choice", "at": "./src/json/json_read.rs:432:82", "line_text": "let original_thread_index = obj.get(\"originalThreadIndex\").unwrap().as_i64().unwrap() as usize;"}, "native": {"dev": "failed", "release": "failed"}, "real_hashmap": {"runs": 8, "failed": 8}, "how": "/verif/vcheck --replay /verif/replays/C15/obj_choicefull_thread_str-142fd40e56.rs"}
/// Test generated for harness `json::json_read::verif_kani_json_object::obj_choicefull_thread_str` 
///
/// Check for `assertion`: "called `Option::unwrap()` on a `None` value"
///
/// # Warning
///
/// Concrete playback tests combined with stubs or contracts is highly
/// experimental, and subject to change.
///
/// The original harness has stubs which are not applied to this test.
/// This may cause a mismatch of non-deterministic values if the stub
/// creates any non-deterministic value.
/// The execution path may also differ, which can be used to refine the stub
/// logic.

#[test]
fn kani_concrete_playback_obj_choicefull_thread_str_148405654450834310() {
    let concrete_vals: Vec<Vec<u8>> = vec![
        // 0
        vec![0, 0, 0, 0, 0, 0, 0, 0],
    ];
    kani::concrete_playback_run(concrete_vals, obj_choicefull_thread_str);
}
