// VCHECK-REPLAY {"property": "C15", "group": "json_object", "harness": "obj_var_assign_num", "check": "called `Option::unwrap()` on a `None` value", "test": "kani_concrete_playback_obj_var_assign_num_2506621253788635294", "values": ["0"], "site": {"function": "bladeink::json::json_read::jtoken_to_runtime_object", "at": "./src/json/json_read.rs:303:61", "line_text": "let var_name = prop_value.unwrap().as_str().unwrap();"}, "native": {"dev": "failed", "release": "failed"}, "real_hashmap": {"runs": 8, "failed": 8}, "how": "/verif/vcheck --replay /verif/replays/C15/obj_var_assign_num-bc33b9d686.rs"}
/// Test generated for harness `json::json_read::verif_kani_json_object::obj_var_assign_num` 
///
/// Check for `cover`: "loader called"
///
/// # Warning
///
/// Concrete playback tests combined with stubs or contracts is highly
/// experimental, and subject to change.
///
/// The original harness has stubs which are not applied to this test.
/// This may cause a mismatch of non-deterministic values if the stub
/// creates any non-deterministic value.
/// The execution path may also differ, which can be used to refine the stub
/// logic.

#[test]
fn kani_concrete_playback_obj_var_assign_num_2506621253788635294() {
    let concrete_vals: Vec<Vec<u8>> = vec![
        // 0
        vec![0, 0, 0, 0, 0, 0, 0, 0],
    ];
    kani::concrete_playback_run(concrete_vals, obj_var_assign_num);
}
