// VCHECK-REPLAY {"property": "C15", "group": "json_object", "harness": "obj_choice_str", "check": "called `Option::unwrap()` on a `None` value", "test": "kani_concrete_playback_obj_choice_str_10287088764970703110", "values": [], "site": {"function": "bladeink::json::json_read::jobject_to_choice", "at": "./src/json/json_read.rs:429:32", "line_text": "let text = obj.get(\"text\").unwrap().as_str().unwrap();"}, "native": {"dev": "failed", "release": "failed"}, "real_hashmap": {"runs": 8, "failed": 8}, "how": "/verif/vcheck --replay /verif/replays/C15/obj_choice_str-15470cc70f.rs"}
/// Test generated for harness `json::json_read::verif_kani_json_object::obj_choice_str` 
///
/// Check for `cover`: "loader called"
///
/// # Warning
///
/// Concrete playback tests combined with stubs or contracts is highly
/// experimental, and subject to change.
///
/// The original harness has stubs which are not applied to this test.
/// This may cause a mismatch of non-deterministic values if the stub
/// creates any non-deterministic value.
/// The execution path may also differ, which can be used to refine the stub
/// logic.

#[test]
fn kani_concrete_playback_obj_choice_str_10287088764970703110() {
    let concrete_vals: Vec<Vec<u8>> = vec![
    ];
    kani::concrete_playback_run(concrete_vals, obj_choice_str);
}
