// VCHECK-REPLAY {"property": "C15", "group": "json_value", "harness": "arr_list_empty", "check": "\"attempt to subtract with overflow\"", "test": "kani_concrete_playback_arr_list_empty_7025803526673113220", "values": ["1"], "site": {"function": "bladeink::json::json_read::jarray_to_runtime_obj_list", "at": "./src/json/json_read.rs:408:9", "line_text": "count -= 1;"}, "native": {"dev": "failed", "release": "passed"}, "real_hashmap": {"runs": 8, "failed": 8}, "how": "/verif/vcheck --replay /verif/replays/C15/arr_list_empty-29a6137993.rs"}
/// Test generated for harness `json::json_read::verif_kani_json_value::arr_list_empty` 
///
/// Check for `assertion`: "attempt to subtract with overflow"
///
/// # Warning
///
/// Concrete playback tests combined with stubs or contracts is highly
/// experimental, and subject to change.
///
/// The original harness has stubs which are not applied to this test.
/// This may cause a mismatch of non-deterministic values if the stub
/// creates any non-deterministic value.
/// The execution path may also differ, which can be used to refine the stub
/// logic.

#[test]
fn kani_concrete_playback_arr_list_empty_7025803526673113220() {
    let concrete_vals: Vec<Vec<u8>> = vec![
        // 1
        vec![1],
    ];
    kani::concrete_playback_run(concrete_vals, arr_list_empty);
}
