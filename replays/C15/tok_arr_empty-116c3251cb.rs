// VCHECK-REPLAY {"property": "C15", "group": "json_value", "harness": "tok_arr_empty", "check": "attempt to subtract with overflow", "test": "kani_concrete_playback_tok_arr_empty_9346849323924763336", "values": [], "site": {"function": "bladeink::json::json_read::jarray_to_container", "at": "./src/json/json_read.rs:366:34", "line_text": "let terminating_obj = jarray[jarray.len() - 1].as_object();"}, "native": {"dev": "failed", "release": "failed"}, "real_hashmap": {"runs": 8, "failed": 8}, "how": "/verif/vcheck --replay /verif/replays/C15/tok_arr_empty-116c3251cb.rs"}
/// Test generated for harness `json::json_read::verif_kani_json_value::tok_arr_empty` 
///
/// Check for `cover`: "loader called"
///
/// # Warning
///
/// Concrete playback tests combined with stubs or contracts is highly
/// experimental, and subject to change.
///
/// The original harness has stubs which are not applied to this test.
/// This may cause a mismatch of non-deterministic values if the stub
/// creates any non-deterministic value.
/// The execution path may also differ, which can be used to refine the stub
/// logic.

#[test]
fn kani_concrete_playback_tok_arr_empty_9346849323924763336() {
    let concrete_vals: Vec<Vec<u8>> = vec![
    ];
    kani::concrete_playback_run(concrete_vals, tok_arr_empty);
}
