// VCHECK-REPLAY {"property": "C15", "group": "json_object", "harness": "obj_choice_bool", "check": "\"called `Option::unwrap()` on a `None` value\"", "test": "kani_concrete_playback_obj_choice_bool_8052909546096021373", "values": ["0"], "site": {"function": "bladeink::json::json_read::jobject_to_choice", "at": "./src/json/json_read.rs:429:32", "line_text": "let text = obj.get(\"text\").unwrap().as_str().unwrap();"}, "native": {"dev": "failed", "release": "failed"}, "real_hashmap": {"runs": 8, "failed": 8}, "how": "/verif/vcheck --replay /verif/replays/C15/obj_choice_bool-fed5ad9a6b.rs"}
/// Test generated for harness `json::json_read::verif_kani_json_object::obj_choice_bool` 
///
/// Check for `assertion`: "called `Option::unwrap()` on a `None` value"
///
/// # Warning
///
/// Concrete playback tests combined with stubs or contracts is highly
/// experimental, and subject to change.
///
/// The original harness has stubs which are not applied to this test.
/// This may cause a mismatch of non-deterministic values if the stub
/// creates any non-deterministic value.
/// The execution path may also differ, which can be used to refine the stub
/// logic.

#[test]
fn kani_concrete_playback_obj_choice_bool_8052909546096021373() {
    let concrete_vals: Vec<Vec<u8>> = vec![
        // 0
        vec![0],
    ];
    kani::concrete_playback_run(concrete_vals, obj_choice_bool);
}
