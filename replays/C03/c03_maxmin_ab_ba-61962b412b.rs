// VCHECK-REPLAY {"property": "C03", "group": "list_ops", "harness": "c03_maxmin_ab_ba", "check": "\"\"C03: the maximum item of a list (LIST_MAX, LIST_VALUE, list->string) depends on map iteration order\"\"", "test": "kani_concrete_playback_c03_maxmin_ab_ba_15082110453023706574", "values": ["-2147483539", "-2147483539", "-1", "-1"], "site": null, "native": {"dev": "failed", "release": "failed"}, "real_hashmap": {"runs": 8, "failed": 5}, "how": "/verif/vcheck --replay /verif/replays/C03/c03_maxmin_ab_ba-61962b412b.rs"}
/// Test generated for harness `ink_list::verif_kani_list_ops::c03_maxmin_ab_ba` 
///
/// Check for `assertion`: ""C03: the maximum item of a list (LIST_MAX, LIST_VALUE, list->string) depends on map iteration order""
///
/// # Warning
///
/// Concrete playback tests combined with stubs or contracts is highly
/// experimental, and subject to change.
///
/// The original harness has stubs which are not applied to this test.
/// This may cause a mismatch of non-deterministic values if the stub
/// creates any non-deterministic value.
/// The execution path may also differ, which can be used to refine the stub
/// logic.

#[test]
fn kani_concrete_playback_c03_maxmin_ab_ba_15082110453023706574() {
    let concrete_vals: Vec<Vec<u8>> = vec![
        // -2147483539
        vec![109, 0, 0, 128],
        // -2147483539
        vec![109, 0, 0, 128],
        // -1
        vec![255, 255, 255, 255],
        // -1
        vec![255, 255, 255, 255],
    ];
    kani::concrete_playback_run(concrete_vals, c03_maxmin_ab_ba);
}
