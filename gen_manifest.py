#!/usr/bin/env python3
"""Regenerates MANIFEST.json from vlib/groups.py (claimed properties) and the static tables below."""
import json, sys
sys.dont_write_bytecode = True
sys.path.insert(0, "/verif/vlib")
import groups as G

NA = {
 "C05": "fixed concrete corpus x choice paths through compiler and interpreter: no symbolic input to range over, and neither compiler nor interpreter can be encoded by Kani/CBMC (DESIGN E4-E7)",
 "C06": "totality over arbitrary text needs the parser on symbolic strings; String/Vec building of symbolic length exhausts CBMC memory (DESIGN E4)",
 "C08": "property lives in Story::continue_internal resumed across calls; Kani ICEs when continue_internal is reachable and a Story cannot be constructed within reach (DESIGN E5, E7)",
 "C09": "every rejected call is a Story/StoryState method whose 'nothing changed' post-condition ranges over the whole story state (DESIGN E3, E5, E7)",
 "C10": "interleavings of host operations over flows of a running story: needs Story, Flow cloning, named-flow HashMap, save/load (DESIGN E3, E5, E7, E8')",
 "C11": "notification timing is relative to completed continue_internal calls; observer bookkeeping lives on Story/VariablesState over a CallStack (DESIGN E5, E7)",
 "C12": "call_external_function is a Story method over output stream, snapshot and evaluation stack; timing is continue_internal (DESIGN E5, E7)",
 "C13": "the delivery block is the tail of continue_internal (DESIGN E7)",
 "C16": "evaluate_function loops over cont() on a Story (DESIGN E5, E7)",
 "C17": "reset_state = StoryState::new (OS RNG) + continue_internal; equivalence over all continuations (DESIGN E6, E7)",
 "C18": "heap-shape property (Rc cycles) of whole content trees after play; drop glue over dyn RTObject is the most expensive construct measured, no leak check exposed by Kani (DESIGN E5)",
 "C19": "bijection between tree positions and text built with String/Vec of input-dependent length; with shapes fixed nothing symbolic remains (DESIGN E4)",
}

LEVEL = {
 "C01": ("bounded model checking of one kernel of the property: the line-end decision function of the look-ahead mechanism, for every pair of ASCII texts up to the stated length and every tag-count pair, against a declarative oracle; the rest of C01 (interpreter, compiler) is outside this check", "3/C01"),
 "C02": ("bounded model checking of the scalar half of the save format: container count flags, choice-point flags, call-stack type codes and Int/Bool values survive write->read for every value of their type (write side of Int/Bool mirrors the json!(v) lines of write_rtobject under a source-text guard); floats and all structured state (flows, threads, variables, lists) are outside", "3/C02"),
 "C03": ("bounded model checking of the places where a result is taken from hash-map iteration order (list max/min/ordering/value lookup): same result for every insertion order and every tie pattern among symbolic item values, under the documented map model", "3/C03"),
 "C04": ("bounded model checking of NativeFunctionCall::call for every operator x scalar operand shape with fully symbolic operand values: never panics (all Rust arithmetic/unwrap/index checks on), faults are Err; interpreter-level panics are outside", "3/C04"),
 "C07": ("bounded model checking of the runtime evaluator against an independent reference evaluator: type and value of every native operator on Bool/Int/Float operands (all values), list algebra on small lists under the map model", "3/C07"),
 "C14": ("bounded model checking of the streaming tokenizer's number conversions and a differential check that both loaders build the same object from the same leaf token (every int, finite float, bool; caret-prefixed text tokens of 1-2 characters; the kind of object for every other 1- and 2-byte ASCII string token); string escapes, longer tokens and all structure are outside (reduced claim, DESIGN 3/C14)", "3/C14"),
 "C15": ("bounded model checking of the loader: every leaf token (null, bool, any i64/u64/f64 number, ASCII strings of length <= 2, short token lists) and one-object tokens {K: v} for every key the loader probes with right- and wrong-typed values (serde_json::Map insert/get stubbed): Ok or Err, never a panic; tokens whose handling iterates a JSON object, whole documents and the streaming loader are outside; 39 harnesses are bug-hunting only (no claim on time-out)", "3/C15"),
 "C20": ("bounded model checking of the CLI's JSON string escaping: every ASCII character (which includes every character JSON requires to be escaped) as a one-character input, against RFC 8259's definition of a string body; non-ASCII and longer inputs are outside", "3/C20"),
}

def main():
    checks = []
    for pid in sorted(G.PROPS):
        P = G.PROPS[pid]
        text, ref = LEVEL[pid]
        tb = list(G.TRUSTED_BASE)
        if any(G.GROUPS[g].get("model_map") for g in P["groups"]):
            tb += G.TRUSTED_BASE_MAP
        checks.append({
            "property_id": pid,
            "quick_cmd": f"./vcheck {pid} --tier quick",
            "thorough_cmd": f"./vcheck {pid} --tier thorough",
            "evidence_file": f"/verif/evidence/{pid}.json",
            "replay_cmd_template": "./vcheck --replay {path}",
            "engine": "kani-cbmc",
            "level_claimed": {"category": "model_checking", "text": text, "design_ref": "DESIGN.md section " + ref},
            "level_note": "Bounded: " + "; ".join(f"[{g}] {G.GROUPS[g]['bounds']}" for g in P["groups"]) + ". Outside the claim: " + P.get("outside", "") + ". Trusted base: " + "; ".join(tb),
            "technique": "solver-based bounded model checking of the compiled Rust (Kani 0.68 -> CBMC 6.11 -> cadical) with symbolic inputs; counterexamples replayed natively (dev + release) before being reported",
        })
    na = [{"property_id": k, "reason": v} for k, v in sorted(NA.items()) if k not in G.PROPS]
    for pid in ("C01","C02","C03","C04","C07","C14","C15","C20"):
        if pid not in G.PROPS and pid not in NA:
            na.append({"property_id": pid, "reason": "check under construction in this session (see DESIGN.md section 3); not yet claimed"})
    na.sort(key=lambda x: x["property_id"])
    m = {
        "version": 1,
        "setup_cmd": "./vcheck --warm",
        "hooks": {
            "guard": "none (no source hooks: harnesses are injected into a scratch copy of /repo as #[cfg(kani)] child modules)",
            "enable": "cfg(kani), set by cargo-kani on the scratch copy only; /repo is never modified by a check",
            "baseline_off_cmd": "cd /repo && cargo test --workspace --no-fail-fast --offline",
            "source_commits": [],
            "add_only": True,
        },
        "engines": [{"name": "kani-cbmc", "path": "/verif/vcheck", "serves_properties": sorted(G.PROPS),
                     "kind_free_text": "python driver: copies /repo to a scratch workspace, injects /verif/harness/*.rs, runs cargo kani (CBMC/cadical) per harness in parallel, classifies failed checks per property, replays counterexamples natively, writes evidence"}],
        "checks": checks,
        "not_applicable": na,
        "notes": "Exit codes of every check: 0 held within bounds (KNOWN-FINDING lines allowed), 1 reproduced violation, 2 inconclusive (never a VIOLATION line). Fixes of genuine defects found by these checks are 'fix:' commits in /repo, listed in /verif/known_findings.json under 'fixed'.",
    }
    json.dump(m, open("/verif/MANIFEST.json", "w"), indent=1)
    print("claimed:", sorted(G.PROPS), "n/a:", [x["property_id"] for x in na])

main()
